// gdfacts: a logic-free fact extractor. It is injected as RUSTC_WORKSPACE_WRAPPER under
// `cargo +nightly check` and dumps, for every local crate, one JSON document with
//   * items (fns, closures, consts, statics) with span / visibility / macro origin
//   * MIR of each body (mir-opt-level=0, overflow checks as in the dev profile)
//   * a typed HIR tree of each body that does not come from an external macro expansion
//   * trait impls, ADT layouts (field names / visibility), evaluated scalar consts
// No rule logic lives here; the Python rule packs in /verif/gdverif decide properties.
#![feature(rustc_private)]
#![allow(clippy::all)]

extern crate rustc_abi;
extern crate rustc_ast;
extern crate rustc_data_structures;
extern crate rustc_driver;
extern crate rustc_hir;
extern crate rustc_interface;
extern crate rustc_middle;
extern crate rustc_session;
extern crate rustc_span;

mod hirdump;
mod json;
mod mirdump;

use json::J;
use rustc_driver::{Callbacks, Compilation};
use rustc_hir::def::DefKind;
use rustc_hir::def_id::{DefId, LocalDefId, LOCAL_CRATE};
use rustc_middle::ty::{self, TyCtxt};
use rustc_span::Span;

pub struct Cb;

pub fn span_file_line(tcx: TyCtxt<'_>, sp: Span) -> (String, usize, usize) {
    let sm = tcx.sess.source_map();
    // use the outermost call site for code from macro expansions? No: keep the real
    // location of the tokens (macro definition site for macro bodies); rules use keys, not lines.
    let lo = sm.lookup_char_pos(sp.lo());
    let name = match &lo.file.name {
        rustc_span::FileName::Real(r) => {
            let s = format!("{}", r.path(rustc_span::RemapPathScopeComponents::DIAGNOSTICS).display());
            s
        }
        other => format!("{:?}", other),
    };
    (name, lo.line, lo.col.0 + 1)
}

/// Macro origin of a span: "" (hand-written or desugaring only), "L:<name>" if every macro in the
/// backtrace is defined in the local crate, "X:<name>" if some macro in the backtrace is external
/// (derive, phf_map!, clap, format_args ...). The name is that of the outermost such macro.
pub fn macro_tag(sp: Span) -> String {
    if !sp.from_expansion() {
        return String::new();
    }
    let mut local: Option<String> = None;
    let mut ext: Option<String> = None;
    for ed in sp.macro_backtrace() {
        if let rustc_span::ExpnKind::Macro(_, name) = ed.kind {
            let is_local = ed.macro_def_id.map(|d| d.is_local()).unwrap_or(false);
            if is_local {
                local = Some(name.to_string());
            } else {
                ext = Some(name.to_string());
            }
        }
    }
    if let Some(e) = ext {
        return format!("X:{}", e);
    }
    if let Some(l) = local {
        return format!("L:{}", l);
    }
    String::new()
}

pub fn span_j(tcx: TyCtxt<'_>, sp: Span) -> J {
    let (f, l, c) = span_file_line(tcx, sp);
    J::Str(format!("{}:{}:{}", f, l, c))
}

pub fn def_path(tcx: TyCtxt<'_>, did: DefId) -> String {
    // crate-qualified, without generic arguments
    let krate = tcx.crate_name(did.krate);
    let p = tcx.def_path(did).to_string_no_crate_verbose();
    format!("{}{}", krate, p)
}

fn vis_str(tcx: TyCtxt<'_>, did: DefId) -> String {
    match tcx.def_kind(did) {
        DefKind::Closure | DefKind::AnonConst | DefKind::InlineConst => "n/a".to_string(),
        _ => match tcx.visibility(did) {
            ty::Visibility::Public => "pub".to_string(),
            ty::Visibility::Restricted(m) => format!("in:{}", def_path(tcx, m)),
        },
    }
}

impl Callbacks for Cb {
    fn after_analysis<'tcx>(&mut self, _c: &rustc_interface::interface::Compiler, tcx: TyCtxt<'tcx>) -> Compilation {
        let out_dir = match std::env::var("GDFACTS_OUT") {
            Ok(d) => d,
            Err(_) => return Compilation::Continue,
        };
        let crate_name = tcx.crate_name(LOCAL_CRATE).to_string();
        let crate_types: Vec<String> = tcx.crate_types().iter().map(|t| format!("{:?}", t)).collect();
        let is_bin = crate_types.iter().any(|t| t == "Executable");
        let is_test = tcx.sess.opts.test;
        let eff = tcx.effective_visibilities(());

        let mut fns: Vec<J> = Vec::new();
        let mut n_mir = 0usize;
        let mut n_hir = 0usize;
        for ldid in tcx.hir_body_owners() {
            let did = ldid.to_def_id();
            let kind = tcx.def_kind(did);
            let mut o: Vec<(String, J)> = Vec::new();
            o.push(("path".into(), J::Str(def_path(tcx, did))));
            o.push(("pretty".into(), J::Str(tcx.def_path_str(did))));
            o.push(("kind".into(), J::Str(format!("{:?}", kind))));
            let dsp = tcx.def_span(did);
            o.push(("span".into(), span_j(tcx, dsp)));
            o.push(("macro".into(), J::Str(macro_tag(dsp))));
            o.push(("vis".into(), J::Str(vis_str(tcx, did))));
            let exported = match kind {
                DefKind::Fn | DefKind::AssocFn | DefKind::Const { .. } | DefKind::Static { .. } | DefKind::AssocConst { .. } => {
                    eff.is_exported(ldid)
                }
                _ => false,
            };
            o.push(("exported".into(), J::Bool(exported)));
            o.push(("reachable".into(), J::Bool(eff.is_reachable(ldid))));
            // parent (for closures: the enclosing fn; for assoc fns: the impl)
            let parent = tcx.parent(did);
            o.push(("parent".into(), J::Str(def_path(tcx, parent))));
            if matches!(kind, DefKind::AssocFn | DefKind::AssocConst { .. }) {
                if let DefKind::Impl { of_trait } = tcx.def_kind(parent) {
                    let self_ty = tcx.type_of(parent).instantiate_identity().skip_norm_wip();
                    o.push(("self_ty".into(), J::Str(format!("{}", self_ty))));
                    if of_trait {
                        let tr = tcx.impl_trait_ref(parent).instantiate_identity().skip_norm_wip();
                        o.push(("impl_trait".into(), J::Str(def_path(tcx, tr.def_id))));
                        o.push(("impl_trait_args".into(), J::Str(format!("{}", tr))));
                    }
                    o.push(("auto_derived".into(), J::Bool(tcx.is_automatically_derived(parent))));
                }
            }
            // generic parameter names in generics_of order (parent's first): lets the analyses substitute a call's
            // generic arguments into the callee's own types
            if matches!(kind, DefKind::Fn | DefKind::AssocFn) {
                let g = tcx.generics_of(did);
                let names: Vec<J> = (0 .. g.count()).map(|i| J::Str(g.param_at(i, tcx).name.to_string())).collect();
                o.push(("generics".into(), J::Arr(names)));
                let sig = tcx.fn_sig(did).instantiate_identity().skip_norm_wip().skip_binder();
                o.push(("ret_ty".into(), J::Str(format!("{}", sig.output()))));
            }
            // in a #[cfg(test)] module? (only relevant if built with --test; kept for completeness)
            o.push(("name".into(), J::Str(tcx.opt_item_name(did).map(|s| s.to_string()).unwrap_or_default())));

            // MIR
            let is_fn_like = matches!(kind, DefKind::Fn | DefKind::AssocFn | DefKind::Closure);
            if is_fn_like && tcx.is_mir_available(did) {
                let body = tcx.optimized_mir(did);
                o.push(("mir".into(), mirdump::dump_body(tcx, did, body)));
                n_mir += 1;
                // promoted constants (e.g. `&GDErrorKind::PacketSend` operands) have their own bodies
                let proms = tcx.promoted_mir(did);
                if !proms.is_empty() {
                    let v: Vec<J> = proms.iter().map(|pb| mirdump::dump_body(tcx, did, pb)).collect();
                    o.push(("promoted".into(), J::Arr(v)));
                }
            } else if matches!(kind, DefKind::Const { .. } | DefKind::Static { .. } | DefKind::AssocConst { .. }) {
                let body = tcx.mir_for_ctfe(did);
                o.push(("mir".into(), mirdump::dump_body(tcx, did, body)));
                n_mir += 1;
            }
            // HIR typed tree: skip bodies produced by external macros (derives etc.)
            let tag = macro_tag(dsp);
            if !tag.starts_with("X:") && !matches!(kind, DefKind::Closure) {
                if let Some(hb) = tcx.hir_maybe_body_owned_by(ldid) {
                    o.push(("hir".into(), hirdump::dump_body(tcx, ldid, hb)));
                    n_hir += 1;
                }
            }
            fns.push(J::Obj(o));
        }

        // trait impls + ADTs + consts
        let mut impls: Vec<J> = Vec::new();
        let mut adts: Vec<J> = Vec::new();
        let mut consts: Vec<(String, J)> = Vec::new();
        let mut macros: Vec<J> = Vec::new();
        for id in tcx.hir_free_items() {
            let did = id.owner_id.to_def_id();
            let kind = tcx.def_kind(did);
            match kind {
                DefKind::Impl { of_trait } => {
                    let self_ty = tcx.type_of(did).instantiate_identity().skip_norm_wip();
                    let mut o: Vec<(String, J)> = Vec::new();
                    o.push(("self_ty".into(), J::Str(format!("{}", self_ty))));
                    if let ty::Adt(ad, _) = self_ty.kind() {
                        o.push(("self_adt".into(), J::Str(def_path(tcx, ad.did()))));
                    }
                    if of_trait {
                        let tr = tcx.impl_trait_ref(did).instantiate_identity().skip_norm_wip();
                        o.push(("trait".into(), J::Str(def_path(tcx, tr.def_id))));
                        o.push(("trait_ref".into(), J::Str(format!("{}", tr))));
                    }
                    o.push(("auto_derived".into(), J::Bool(tcx.is_automatically_derived(did))));
                    o.push(("span".into(), span_j(tcx, tcx.def_span(did))));
                    o.push(("macro".into(), J::Str(macro_tag(tcx.def_span(did)))));
                    let mut ms: Vec<(String, J)> = Vec::new();
                    for it in tcx.associated_items(did).in_definition_order() {
                        ms.push((it.name().to_string(), J::Str(def_path(tcx, it.def_id))));
                    }
                    o.push(("items".into(), J::Obj(ms)));
                    impls.push(J::Obj(o));
                }
                DefKind::Struct | DefKind::Enum | DefKind::Union => {
                    let ad = tcx.adt_def(did);
                    let mut o: Vec<(String, J)> = Vec::new();
                    o.push(("path".into(), J::Str(def_path(tcx, did))));
                    o.push(("kind".into(), J::Str(format!("{:?}", kind))));
                    o.push(("vis".into(), J::Str(vis_str(tcx, did))));
                    o.push(("exported".into(), J::Bool(eff.is_reachable(id.owner_id.def_id))));
                    let mut vs: Vec<J> = Vec::new();
                    for v in ad.variants() {
                        let mut fs: Vec<J> = Vec::new();
                        for f in &v.fields {
                            let fty = tcx.type_of(f.did).instantiate_identity().skip_norm_wip();
                            fs.push(J::Obj(vec![
                                ("name".into(), J::Str(f.name.to_string())),
                                ("ty".into(), J::Str(format!("{}", fty))),
                                ("vis".into(), J::Str(vis_str(tcx, f.did))),
                            ]));
                        }
                        vs.push(J::Obj(vec![
                            ("name".into(), J::Str(v.name.to_string())),
                            ("fields".into(), J::Arr(fs)),
                        ]));
                    }
                    o.push(("variants".into(), J::Arr(vs)));
                    adts.push(J::Obj(o));
                }
                DefKind::Macro(_) => {
                    macros.push(J::Str(def_path(tcx, did)));
                }
                _ => {}
            }
        }
        // scalar consts (free and associated)
        for ldid in tcx.hir_body_owners() {
            let did = ldid.to_def_id();
            if matches!(tcx.def_kind(did), DefKind::Const { .. } | DefKind::AssocConst { .. }) {
                if tcx.generics_of(did).requires_monomorphization(tcx) {
                    continue;
                }
                if let Ok(v) = tcx.const_eval_poly(did) {
                    if let Some(s) = v.try_to_scalar_int() {
                        let t = tcx.type_of(did).instantiate_identity().skip_norm_wip();
                        consts.push((def_path(tcx, did), mirdump::scalar_j(tcx, s, t)));
                    }
                }
            }
        }

        // scalar statics
        for ldid in tcx.hir_body_owners() {
            let did = ldid.to_def_id();
            if let DefKind::Static { .. } = tcx.def_kind(did) {
                let t = tcx.type_of(did).instantiate_identity().skip_norm_wip();
                if !(t.is_integral() || t.is_bool()) {
                    continue;
                }
                if let Ok(alloc) = tcx.eval_static_initializer(did) {
                    let a = alloc.inner();
                    let n = a.len();
                    if n <= 16 {
                        let bytes = a.inspect_with_uninit_and_ptr_outside_interpreter(0..n);
                        let mut v: u128 = 0;
                        for (i, b) in bytes.iter().enumerate() {
                            v |= (*b as u128) << (8 * i);
                        }
                        let mut val = v as i128;
                        if t.is_signed() && n < 16 && (v >> (8 * n - 1)) & 1 == 1 {
                            val = (v as i128) - (1i128 << (8 * n));
                        }
                        consts.push((def_path(tcx, did), J::Num(val)));
                    }
                }
            }
        }

        let doc = J::Obj(vec![
            ("crate".into(), J::Str(crate_name.clone())),
            ("crate_types".into(), J::Arr(crate_types.iter().map(|s| J::Str(s.clone())).collect())),
            ("is_test".into(), J::Bool(is_test)),
            ("n_mir".into(), J::Num(n_mir as i128)),
            ("n_hir".into(), J::Num(n_hir as i128)),
            ("fns".into(), J::Arr(fns)),
            ("impls".into(), J::Arr(impls)),
            ("adts".into(), J::Arr(adts)),
            ("consts".into(), J::Obj(consts)),
            ("macros".into(), J::Arr(macros)),
        ]);
        let fname = format!(
            "{}/{}-{}{}.json",
            out_dir,
            crate_name,
            if is_bin { "bin" } else { "lib" },
            if is_test { "-test" } else { "" }
        );
        let mut s = String::with_capacity(1 << 24);
        doc.write(&mut s);
        let tmp = format!("{}.tmp{}", fname, std::process::id());
        std::fs::write(&tmp, s).expect("gdfacts: cannot write facts");
        std::fs::rename(&tmp, &fname).expect("gdfacts: cannot rename facts");
        Compilation::Continue
    }
}

#[allow(dead_code)]
fn _unused(_: LocalDefId) {}

fn main() {
    let mut args: Vec<String> = std::env::args().collect();
    // RUSTC_WORKSPACE_WRAPPER: argv[1] is the path of the real rustc
    if args.len() > 1 && (args[1].ends_with("rustc") || args[1].contains("/rustc")) {
        args.remove(1);
    }
    rustc_driver::run_compiler(&args, &mut Cb);
}
