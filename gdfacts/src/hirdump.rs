// Typed HIR tree → JSON. Node = [kind, {attrs}, children...]. Faithful dump; no rule logic.
use crate::json::J;
use crate::{def_path, macro_tag, span_file_line};
use rustc_ast::ast::LitKind;
use rustc_hir as hir;
use rustc_hir::def::{DefKind, Res};
use rustc_hir::def_id::LocalDefId;
use rustc_hir::{Expr, ExprKind, Pat, PatKind, StmtKind};
use rustc_middle::ty::{self, Instance, TyCtxt, TypeckResults, TypingEnv};

struct Cx<'tcx> {
    tcx: TyCtxt<'tcx>,
    tr: &'tcx TypeckResults<'tcx>,
    env: TypingEnv<'tcx>,
}

fn node(kind: &str, attrs: Vec<(String, J)>, mut children: Vec<J>) -> J {
    let mut v = vec![J::s(kind), J::Obj(attrs)];
    v.append(&mut children);
    J::Arr(v)
}

fn a(k: &str, v: J) -> (String, J) { (k.to_string(), v) }

impl<'tcx> Cx<'tcx> {
    fn res_attrs(&self, res: Res, attrs: &mut Vec<(String, J)>) {
        match res {
            Res::Local(hid) => {
                attrs.push(a("rk", J::s("local")));
                attrs.push(a("name", J::Str(self.tcx.hir_name(hid).to_string())));
                attrs.push(a("lid", J::Str(format!("{}.{}", hid.owner.def_id.local_def_index.as_u32(), hid.local_id.as_u32()))));
            }
            Res::Def(kind, did) => {
                attrs.push(a("rk", J::Str(format!("{:?}", kind))));
                attrs.push(a("res", J::Str(def_path(self.tcx, did))));
                if matches!(kind, DefKind::AssocFn | DefKind::AssocConst { .. }) {
                    self.owner_attr(did, attrs);
                }
                // for enum variant ctors: also the variant/adt
                match kind {
                    DefKind::Ctor(..) => {
                        let v = self.tcx.parent(did);
                        attrs.push(a("ctor_of", J::Str(def_path(self.tcx, v))));
                    }
                    _ => {}
                }
            }
            Res::SelfCtor(did) | Res::SelfTyAlias { alias_to: did, .. } => {
                attrs.push(a("rk", J::s("SelfCtor")));
                attrs.push(a("res", J::Str(def_path(self.tcx, did))));
            }
            other => {
                attrs.push(a("rk", J::Str(format!("{:?}", other))));
            }
        }
    }

    /// owner of an associated item: the trait it is declared in, or the self type of its inherent impl
    fn owner_attr(&self, did: rustc_hir::def_id::DefId, attrs: &mut Vec<(String, J)>) {
        if let Some(parent) = self.tcx.opt_parent(did) {
            match self.tcx.def_kind(parent) {
                DefKind::Trait => attrs.push(a("owner", J::Str(format!("trait:{}", def_path(self.tcx, parent))))),
                DefKind::Impl { of_trait } => {
                    if of_trait {
                        let tr = self.tcx.impl_trait_ref(parent).instantiate_identity().skip_norm_wip();
                        attrs.push(a("owner", J::Str(format!("trait:{}", def_path(self.tcx, tr.def_id)))));
                    } else {
                        let st = self.tcx.type_of(parent).instantiate_identity().skip_norm_wip();
                        attrs.push(a("owner", J::Str(format!("type:{}", st))));
                    }
                }
                _ => {}
            }
        }
    }

    fn resolve_call(&self, did: rustc_hir::def_id::DefId, args: ty::GenericArgsRef<'tcx>, attrs: &mut Vec<(String, J)>) {
        attrs.push(a("fn", J::Str(def_path(self.tcx, did))));
        self.owner_attr(did, attrs);
        attrs.push(a("gargs", J::Arr(args.iter().map(|x| J::Str(format!("{}", x))).collect())));
        if args.len() != self.tcx.generics_of(did).count() {
            return;
        }
        if let Ok(Some(inst)) = Instance::try_resolve(self.tcx, self.env, did, args) {
            let rid = inst.def_id();
            attrs.push(a("inst", J::Str(def_path(self.tcx, rid))));
            attrs.push(a("inst_gargs", J::Arr(inst.args.iter().map(|x| J::Str(format!("{}", x))).collect())));
        }
    }

    fn common(&self, e: &Expr<'tcx>, attrs: &mut Vec<(String, J)>) {
        attrs.push(a("ty", J::Str(format!("{}", self.tr.expr_ty(e)))));
        let adj = self.tr.expr_ty_adjusted(e);
        if adj != self.tr.expr_ty(e) {
            attrs.push(a("aty", J::Str(format!("{}", adj))));
        }
        let (f, l, c) = span_file_line(self.tcx, e.span);
        attrs.push(a("at", J::Str(format!("{}:{}:{}", f, l, c))));
        let mt = macro_tag(e.span);
        if !mt.is_empty() {
            attrs.push(a("mt", J::Str(mt)));
        }
    }

    fn lit(&self, l: &hir::Lit, attrs: &mut Vec<(String, J)>) {
        match &l.node {
            LitKind::Str(s, _) => {
                attrs.push(a("lk", J::s("str")));
                attrs.push(a("v", J::Str(s.to_string())));
            }
            LitKind::ByteStr(b, _) | LitKind::CStr(b, _) => {
                attrs.push(a("lk", J::s("bytes")));
                attrs.push(a("v", J::Arr(b.as_byte_str().iter().map(|x| J::Num(*x as i128)).collect())));
            }
            LitKind::Byte(b) => {
                attrs.push(a("lk", J::s("int")));
                attrs.push(a("v", J::Num(*b as i128)));
            }
            LitKind::Char(c) => {
                attrs.push(a("lk", J::s("char")));
                attrs.push(a("v", J::Str(c.to_string())));
            }
            LitKind::Int(n, _) => {
                attrs.push(a("lk", J::s("int")));
                let v = n.get();
                if v > i128::MAX as u128 {
                    attrs.push(a("v", J::Str(v.to_string())));
                } else {
                    attrs.push(a("v", J::Num(v as i128)));
                }
            }
            LitKind::Float(s, _) => {
                attrs.push(a("lk", J::s("float")));
                attrs.push(a("v", J::Str(s.to_string())));
            }
            LitKind::Bool(b) => {
                attrs.push(a("lk", J::s("bool")));
                attrs.push(a("v", J::Bool(*b)));
            }
            LitKind::Err(_) => attrs.push(a("lk", J::s("err"))),
        }
    }

    fn qpath_str(&self, qp: &hir::QPath<'tcx>) -> String {
        rustc_hir_pretty_qpath(qp)
    }

    fn block(&self, b: &hir::Block<'tcx>) -> J {
        let mut ch: Vec<J> = Vec::new();
        for s in b.stmts {
            match &s.kind {
                StmtKind::Let(l) => {
                    let mut c = vec![self.pat(l.pat)];
                    let mut at = vec![];
                    if let Some(i) = l.init {
                        c.push(self.expr(i));
                        at.push(a("init", J::Bool(true)));
                    }
                    if let Some(els) = l.els {
                        c.push(self.block(els));
                        at.push(a("els", J::Bool(true)));
                    }
                    let (f, ln, col) = span_file_line(self.tcx, l.span);
                    at.push(a("at", J::Str(format!("{}:{}:{}", f, ln, col))));
                    ch.push(node("let", at, c));
                }
                StmtKind::Item(_) => {}
                StmtKind::Expr(e) => ch.push(node("stmt", vec![], vec![self.expr(e)])),
                StmtKind::Semi(e) => ch.push(node("stmt", vec![a("semi", J::Bool(true))], vec![self.expr(e)])),
            }
        }
        let mut at = vec![];
        if let Some(e) = b.expr {
            ch.push(self.expr(e));
            at.push(a("tail", J::Bool(true)));
        }
        node("block", at, ch)
    }

    fn pat(&self, p: &Pat<'tcx>) -> J {
        let mut at = vec![a("ty", J::Str(format!("{}", self.tr.pat_ty(p))))];
        match &p.kind {
            PatKind::Wild => node("pwild", at, vec![]),
            PatKind::Binding(mode, hid, ident, sub) => {
                at.push(a("name", J::Str(ident.name.to_string())));
                at.push(a("lid", J::Str(format!("{}.{}", hid.owner.def_id.local_def_index.as_u32(), hid.local_id.as_u32()))));
                at.push(a("mode", J::Str(format!("{:?}", mode))));
                node("pbind", at, sub.map(|s| vec![self.pat(s)]).unwrap_or_default())
            }
            PatKind::Struct(qp, fields, _) => {
                let res = self.tr.qpath_res(qp, p.hir_id);
                self.res_attrs(res, &mut at);
                let ch = fields
                    .iter()
                    .map(|f| node("pfld", vec![a("name", J::Str(f.ident.name.to_string()))], vec![self.pat(f.pat)]))
                    .collect();
                node("pstruct", at, ch)
            }
            PatKind::TupleStruct(qp, pats, ddpos) => {
                let res = self.tr.qpath_res(qp, p.hir_id);
                self.res_attrs(res, &mut at);
                if let Some(d) = ddpos.as_opt_usize() {
                    at.push(a("dotdot", J::Num(d as i128)));
                }
                node("ptstruct", at, pats.iter().map(|x| self.pat(x)).collect())
            }
            PatKind::Or(pats) => node("por", at, pats.iter().map(|x| self.pat(x)).collect()),
            PatKind::Tuple(pats, ddpos) => {
                if let Some(d) = ddpos.as_opt_usize() {
                    at.push(a("dotdot", J::Num(d as i128)));
                }
                node("ptuple", at, pats.iter().map(|x| self.pat(x)).collect())
            }
            PatKind::Box(x) | PatKind::Deref(x) => node("pderef", at, vec![self.pat(x)]),
            PatKind::Ref(x, _, _) => node("pref", at, vec![self.pat(x)]),
            PatKind::Expr(pe) => node("pexpr", at, vec![self.pat_expr(pe)]),
            PatKind::Guard(x, g) => node("pguard", at, vec![self.pat(x), self.expr(g)]),
            PatKind::Range(lo, hi, end) => {
                at.push(a("end", J::Str(format!("{:?}", end))));
                let mut ch = vec![];
                ch.push(lo.map(|x| self.pat_expr(x)).unwrap_or(J::Null));
                ch.push(hi.map(|x| self.pat_expr(x)).unwrap_or(J::Null));
                node("prange", at, ch)
            }
            PatKind::Slice(before, mid, after) => {
                at.push(a("before", J::Num(before.len() as i128)));
                at.push(a("mid", J::Bool(mid.is_some())));
                let mut ch: Vec<J> = before.iter().map(|x| self.pat(x)).collect();
                if let Some(m) = mid {
                    ch.push(self.pat(m));
                }
                ch.extend(after.iter().map(|x| self.pat(x)));
                node("pslice", at, ch)
            }
            _ => node("pother", at, vec![]),
        }
    }

    fn pat_expr(&self, pe: &hir::PatExpr<'tcx>) -> J {
        match &pe.kind {
            hir::PatExprKind::Lit { lit, negated } => {
                let mut at = vec![a("neg", J::Bool(*negated))];
                self.lit(lit, &mut at);
                node("lit", at, vec![])
            }
            hir::PatExprKind::Path(qp) => {
                let mut at = vec![];
                let res = self.tr.qpath_res(qp, pe.hir_id);
                self.res_attrs(res, &mut at);
                node("path", at, vec![])
            }
        }
    }

    fn expr(&self, e: &Expr<'tcx>) -> J {
        let mut at: Vec<(String, J)> = Vec::new();
        self.common(e, &mut at);
        match &e.kind {
            ExprKind::DropTemps(x) | ExprKind::Use(x, _) | ExprKind::Type(x, _) => self.expr(x),
            ExprKind::Lit(l) => {
                self.lit(l, &mut at);
                node("lit", at, vec![])
            }
            ExprKind::Path(qp) => {
                let res = self.tr.qpath_res(qp, e.hir_id);
                self.res_attrs(res, &mut at);
                if let Some(ga) = self.tr.node_args_opt(e.hir_id) {
                    at.push(a("gargs", J::Arr(ga.iter().map(|x| J::Str(format!("{}", x))).collect())));
                    if let Res::Def(DefKind::Fn | DefKind::AssocFn, did) = res {
                        if ga.len() != self.tcx.generics_of(did).count() {
                        } else if let Ok(Some(inst)) = Instance::try_resolve(self.tcx, self.env, did, ga) {
                            at.push(a("inst", J::Str(def_path(self.tcx, inst.def_id()))));
                        }
                    }
                }
                at.push(a("text", J::Str(self.qpath_str(qp))));
                node("path", at, vec![])
            }
            ExprKind::Call(f, args) => {
                // resolved callee when the callee expression is a path to a fn / ctor
                if let ExprKind::Path(qp) = &f.kind {
                    let res = self.tr.qpath_res(qp, f.hir_id);
                    match res {
                        Res::Def(DefKind::Fn | DefKind::AssocFn, did) => {
                            let ga = self.tr.node_args(f.hir_id);
                            self.resolve_call(did, ga, &mut at);
                        }
                        Res::Def(DefKind::Ctor(..), did) => {
                            at.push(a("ctor", J::Str(def_path(self.tcx, self.tcx.parent(did)))));
                        }
                        Res::SelfCtor(did) => {
                            at.push(a("ctor", J::Str(def_path(self.tcx, did))));
                        }
                        _ => {}
                    }
                }
                let mut ch = vec![self.expr(f)];
                ch.extend(args.iter().map(|x| self.expr(x)));
                node("call", at, ch)
            }
            ExprKind::MethodCall(seg, recv, args, _) => {
                at.push(a("name", J::Str(seg.ident.name.to_string())));
                if let Some(did) = self.tr.type_dependent_def_id(e.hir_id) {
                    let ga = self.tr.node_args(e.hir_id);
                    self.resolve_call(did, ga, &mut at);
                }
                let mut ch = vec![self.expr(recv)];
                ch.extend(args.iter().map(|x| self.expr(x)));
                node("mcall", at, ch)
            }
            ExprKind::Tup(xs) => node("tup", at, xs.iter().map(|x| self.expr(x)).collect()),
            ExprKind::Array(xs) => node("array", at, xs.iter().map(|x| self.expr(x)).collect()),
            ExprKind::Binary(op, l, r) => {
                at.push(a("op", J::Str(format!("{:?}", op.node))));
                if self.tr.is_method_call(e) {
                    if let Some(did) = self.tr.type_dependent_def_id(e.hir_id) {
                        at.push(a("ovl", J::Str(def_path(self.tcx, did))));
                    }
                }
                node("bin", at, vec![self.expr(l), self.expr(r)])
            }
            ExprKind::Unary(op, x) => {
                at.push(a("op", J::Str(format!("{:?}", op))));
                if self.tr.is_method_call(e) {
                    if let Some(did) = self.tr.type_dependent_def_id(e.hir_id) {
                        at.push(a("ovl", J::Str(def_path(self.tcx, did))));
                    }
                }
                node("un", at, vec![self.expr(x)])
            }
            ExprKind::Cast(x, _) => node("cast", at, vec![self.expr(x)]),
            ExprKind::Let(l) => node("letx", at, vec![self.pat(l.pat), self.expr(l.init)]),
            ExprKind::If(c, t, els) => {
                let mut ch = vec![self.expr(c), self.expr(t)];
                if let Some(x) = els {
                    ch.push(self.expr(x));
                }
                node("if", at, ch)
            }
            ExprKind::Loop(b, _, src, _) => {
                at.push(a("src", J::Str(format!("{:?}", src))));
                node("loop", at, vec![self.block(b)])
            }
            ExprKind::Match(scrut, arms, src) => {
                let s = match src {
                    hir::MatchSource::Normal => "normal",
                    hir::MatchSource::Postfix => "postfix",
                    hir::MatchSource::ForLoopDesugar => "for",
                    hir::MatchSource::TryDesugar(_) => "try",
                    hir::MatchSource::AwaitDesugar => "await",
                    hir::MatchSource::FormatArgs => "fmt",
                };
                at.push(a("src", J::s(s)));
                let mut ch = vec![self.expr(scrut)];
                for arm in *arms {
                    let mut ac = vec![self.pat(arm.pat)];
                    let mut aa = vec![];
                    if let Some(g) = arm.guard {
                        ac.push(self.expr(g));
                        aa.push(a("guard", J::Bool(true)));
                    }
                    ac.push(self.expr(arm.body));
                    ch.push(node("arm", aa, ac));
                }
                node("match", at, ch)
            }
            ExprKind::Closure(c) => {
                at.push(a("def", J::Str(def_path(self.tcx, c.def_id.to_def_id()))));
                let body = self.tcx.hir_body(c.body);
                let mut ch: Vec<J> = body.params.iter().map(|p| self.pat(p.pat)).collect();
                at.push(a("nparams", J::Num(body.params.len() as i128)));
                ch.push(self.expr(body.value));
                node("closure", at, ch)
            }
            ExprKind::Block(b, _) => {
                let J::Arr(mut v) = self.block(b) else { unreachable!() };
                // merge attrs
                if let J::Obj(o) = &mut v[1] {
                    o.append(&mut at);
                }
                J::Arr(v)
            }
            ExprKind::Assign(l, r, _) => node("assign", at, vec![self.expr(l), self.expr(r)]),
            ExprKind::AssignOp(op, l, r) => {
                at.push(a("op", J::Str(format!("{:?}", op.node))));
                if self.tr.is_method_call(e) {
                    if let Some(did) = self.tr.type_dependent_def_id(e.hir_id) {
                        at.push(a("ovl", J::Str(def_path(self.tcx, did))));
                    }
                }
                node("assignop", at, vec![self.expr(l), self.expr(r)])
            }
            ExprKind::Field(x, ident) => {
                at.push(a("name", J::Str(ident.name.to_string())));
                node("field", at, vec![self.expr(x)])
            }
            ExprKind::Index(x, i, _) => {
                if self.tr.is_method_call(e) {
                    if let Some(did) = self.tr.type_dependent_def_id(e.hir_id) {
                        at.push(a("ovl", J::Str(def_path(self.tcx, did))));
                    }
                }
                node("index", at, vec![self.expr(x), self.expr(i)])
            }
            ExprKind::AddrOf(_, m, x) => {
                at.push(a("mut", J::Bool(m.is_mut())));
                node("ref", at, vec![self.expr(x)])
            }
            ExprKind::Break(_, x) => node("break", at, x.map(|x| vec![self.expr(x)]).unwrap_or_default()),
            ExprKind::Continue(_) => node("continue", at, vec![]),
            ExprKind::Ret(x) => node("ret", at, x.map(|x| vec![self.expr(x)]).unwrap_or_default()),
            ExprKind::Struct(qp, fields, tail) => {
                let res = self.tr.qpath_res(qp, e.hir_id);
                self.res_attrs(res, &mut at);
                at.push(a("text", J::Str(self.qpath_str(qp))));
                // adt + variant
                if let ty::Adt(ad, _) = self.tr.expr_ty(e).kind() {
                    at.push(a("adt", J::Str(def_path(self.tcx, ad.did()))));
                    let v = match res {
                        Res::Def(DefKind::Variant, vd) => Some(ad.variant_with_id(vd).name.to_string()),
                        _ => None,
                    };
                    if let Some(v) = v {
                        at.push(a("variant", J::Str(v)));
                    }
                }
                let mut ch: Vec<J> = fields
                    .iter()
                    .map(|f| {
                        node(
                            "fld",
                            vec![a("name", J::Str(f.ident.name.to_string())), a("short", J::Bool(f.is_shorthand))],
                            vec![self.expr(f.expr)],
                        )
                    })
                    .collect();
                match tail {
                    hir::StructTailExpr::Base(b) => ch.push(node("base", vec![], vec![self.expr(b)])),
                    hir::StructTailExpr::None => {}
                    _ => ch.push(node("base", vec![a("default", J::Bool(true))], vec![])),
                }
                node("struct", at, ch)
            }
            ExprKind::Repeat(x, n) => {
                at.push(a("count", J::Str(format!("{:?}", n.kind).chars().take(60).collect())));
                node("repeat", at, vec![self.expr(x)])
            }
            ExprKind::ConstBlock(_) => node("constblock", at, vec![]),
            ExprKind::Become(x) => node("become", at, vec![self.expr(x)]),
            ExprKind::Yield(x, _) => node("yield", at, vec![self.expr(x)]),
            _ => node("other", at, vec![]),
        }
    }
}

fn rustc_hir_pretty_qpath(qp: &hir::QPath<'_>) -> String {
    match qp {
        hir::QPath::Resolved(_, p) => p.segments.iter().map(|s| s.ident.name.to_string()).collect::<Vec<_>>().join("::"),
        hir::QPath::TypeRelative(_, seg) => format!("<_>::{}", seg.ident.name),
    }
}

pub fn dump_body<'tcx>(tcx: TyCtxt<'tcx>, ldid: LocalDefId, body: &'tcx hir::Body<'tcx>) -> J {
    let tr = tcx.typeck(ldid);
    let env = TypingEnv::post_analysis(tcx, ldid.to_def_id());
    let cx = Cx { tcx, tr, env };
    let params: Vec<J> = body.params.iter().map(|p| cx.pat(p.pat)).collect();
    J::Obj(vec![("params".to_string(), J::Arr(params)), ("body".to_string(), cx.expr(body.value))])
}
