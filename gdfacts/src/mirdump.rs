// MIR → JSON (faithful dump; no rule logic).
use crate::json::J;
use crate::{def_path, macro_tag, span_file_line};
use rustc_hir::def_id::DefId;
use rustc_middle::mir::{
    self, AggregateKind, AssertKind, BasicBlock, Body, Operand, Place, PlaceElem, Rvalue, StatementKind,
    TerminatorKind, VarDebugInfoContents,
};
use rustc_middle::ty::{self, Instance, ScalarInt, Ty, TyCtxt, TypingEnv};
use rustc_span::Span;

pub fn scalar_j<'tcx>(_tcx: TyCtxt<'tcx>, s: ScalarInt, t: Ty<'tcx>) -> J {
    let size = s.size();
    match t.kind() {
        ty::Int(_) => J::Num(s.to_int(size)),
        ty::Uint(_) | ty::Bool | ty::Char => {
            let u = s.to_uint(size);
            if u > i128::MAX as u128 {
                J::Str(u.to_string())
            } else {
                J::Num(u as i128)
            }
        }
        _ => {
            let u = s.to_bits_unchecked();
            if u > i128::MAX as u128 {
                J::Str(u.to_string())
            } else {
                J::Num(u as i128)
            }
        }
    }
}

struct Cx<'a, 'tcx> {
    tcx: TyCtxt<'tcx>,
    did: DefId,
    body: &'a Body<'tcx>,
    env: TypingEnv<'tcx>,
}

fn gargs_j<'tcx>(args: ty::GenericArgsRef<'tcx>) -> J {
    J::Arr(args.iter().map(|a| J::Str(format!("{}", a))).collect())
}

impl<'a, 'tcx> Cx<'a, 'tcx> {
    fn place(&self, p: &Place<'tcx>) -> J {
        let mut projs: Vec<J> = Vec::new();
        let mut pty = mir::PlaceTy::from_ty(self.body.local_decls[p.local].ty);
        for elem in p.projection.iter() {
            let j = match elem {
                PlaceElem::Deref => J::s("*"),
                PlaceElem::Field(f, _) => {
                    let mut name = J::Null;
                    if let ty::Adt(ad, _) = pty.ty.kind() {
                        let vidx = pty.variant_index.unwrap_or(rustc_abi::FIRST_VARIANT);
                        if !ad.is_union() && vidx.as_usize() < ad.variants().len() {
                            let v = ad.variant(vidx);
                            if f.as_usize() < v.fields.len() {
                                name = J::Str(v.fields[f].name.to_string());
                            }
                        }
                    }
                    J::Arr(vec![J::s("f"), J::Num(f.as_usize() as i128), name])
                }
                PlaceElem::Index(l) => J::Arr(vec![J::s("i"), J::Num(l.as_usize() as i128)]),
                PlaceElem::ConstantIndex { offset, min_length, from_end } => J::Arr(vec![
                    J::s("ci"),
                    J::Num(offset as i128),
                    J::Num(min_length as i128),
                    J::Bool(from_end),
                ]),
                PlaceElem::Subslice { from, to, from_end } => {
                    J::Arr(vec![J::s("sub"), J::Num(from as i128), J::Num(to as i128), J::Bool(from_end)])
                }
                PlaceElem::Downcast(name, v) => J::Arr(vec![
                    J::s("dc"),
                    name.map(|n| J::Str(n.to_string())).unwrap_or(J::Null),
                    J::Num(v.as_usize() as i128),
                ]),
                _ => J::Arr(vec![J::s("oc")]),
            };
            projs.push(j);
            pty = pty.projection_ty(self.tcx, elem);
        }
        J::Arr(vec![J::Num(p.local.as_usize() as i128), J::Arr(projs)])
    }

    fn fn_ref(&self, def_id: DefId, args: ty::GenericArgsRef<'tcx>) -> J {
        let mut o: Vec<(String, J)> = Vec::new();
        o.push(("raw".into(), J::Str(def_path(self.tcx, def_id))));
        o.push(("gargs".into(), gargs_j(args)));
        o.push(("pretty".into(), J::Str(self.tcx.def_path_str_with_args(def_id, args))));
        // layout size of each type argument where computable (used by the allocation-size rule)
        let sizes: Vec<J> = args
            .iter()
            .map(|a| match a.as_type() {
                Some(t) => match self.tcx.layout_of(self.env.as_query_input(t)) {
                    Ok(l) => J::Num(l.size.bytes() as i128),
                    Err(_) => J::Null,
                },
                None => J::Null,
            })
            .collect();
        o.push(("garg_sizes".into(), J::Arr(sizes)));
        let ok_args = args.len() == self.tcx.generics_of(def_id).count();
        match if ok_args { Instance::try_resolve(self.tcx, self.env, def_id, args) } else { Ok(None) } {
            Ok(Some(inst)) => {
                let rid = inst.def_id();
                o.push(("res".into(), J::Str(def_path(self.tcx, rid))));
                o.push(("res_gargs".into(), gargs_j(inst.args)));
                o.push(("res_pretty".into(), J::Str(self.tcx.def_path_str_with_args(rid, inst.args))));
                let kind = match inst.def {
                    ty::InstanceKind::Item(_) => "item",
                    ty::InstanceKind::Intrinsic(_) => "intrinsic",
                    ty::InstanceKind::Virtual(..) => "virtual",
                    ty::InstanceKind::ClosureOnceShim { .. } => "closure_once",
                    ty::InstanceKind::FnPtrShim(..) => "fnptr_shim",
                    ty::InstanceKind::DropGlue(..) => "drop_glue",
                    ty::InstanceKind::CloneShim(..) => "clone_shim",
                    ty::InstanceKind::ReifyShim(..) => "reify",
                    ty::InstanceKind::VTableShim(..) => "vtable_shim",
                    _ => "other",
                };
                o.push(("ikind".into(), J::s(kind)));
                o.push(("local".into(), J::Bool(rid.is_local())));
            }
            _ => {
                o.push(("res".into(), J::Null));
                o.push(("local".into(), J::Bool(def_id.is_local())));
            }
        }
        J::Obj(o)
    }

    fn constant(&self, c: &mir::ConstOperand<'tcx>) -> J {
        let ty = c.const_.ty();
        let mut o: Vec<(String, J)> = Vec::new();
        o.push(("ty".into(), J::Str(format!("{}", ty))));
        match ty.kind() {
            ty::FnDef(def_id, args) => {
                o.push(("fn".into(), self.fn_ref(*def_id, args)));
                return J::Obj(o);
            }
            _ => {}
        }
        if let Some(s) = c.const_.try_eval_scalar_int(self.tcx, self.env) {
            o.push(("v".into(), scalar_j(self.tcx, s, ty)));
            return J::Obj(o);
        }
        // &str / &[u8] literals
        if let ty::Ref(_, inner, _) = ty.kind() {
            if inner.is_str() || matches!(inner.kind(), ty::Slice(_)) {
                if let Ok(v) = c.const_.eval(self.tcx, self.env, c.span) {
                    if let Some(bytes) = v.try_get_slice_bytes_for_diagnostics(self.tcx) {
                        if inner.is_str() {
                            o.push(("str".into(), J::Str(String::from_utf8_lossy(bytes).to_string())));
                        } else {
                            o.push(("bytes".into(), J::Arr(bytes.iter().map(|b| J::Num(*b as i128)).collect())));
                        }
                        return J::Obj(o);
                    }
                }
            }
        }
        // pointers to statics (`static X: usize = ..` read as `*const`): record the static's def path
        if let Ok(v) = c.const_.eval(self.tcx, self.env, c.span) {
            if let mir::ConstValue::Scalar(mir::interpret::Scalar::Ptr(ptr, _)) = v {
                let aid = ptr.provenance.alloc_id();
                if let Some(mir::interpret::GlobalAlloc::Static(sid)) = self.tcx.try_get_global_alloc(aid) {
                    o.push(("static".into(), J::Str(def_path(self.tcx, sid))));
                }
            }
        }
        // unevaluated / named consts: record the def path when there is one
        match c.const_ {
            mir::Const::Unevaluated(uv, _) => {
                o.push(("unevaluated".into(), J::Str(def_path(self.tcx, uv.def))));
                if let Some(p) = uv.promoted {
                    o.push(("promoted".into(), J::Num(p.as_usize() as i128)));
                }
            }
            _ => {}
        }
        o.push(("dbg".into(), J::Str(format!("{:?}", c.const_))));
        J::Obj(o)
    }

    fn operand(&self, op: &Operand<'tcx>) -> J {
        match op {
            Operand::Copy(p) => J::Arr(vec![J::s("copy"), self.place(p)]),
            Operand::Move(p) => J::Arr(vec![J::s("move"), self.place(p)]),
            Operand::Constant(c) => J::Arr(vec![J::s("const"), self.constant(c)]),
            #[allow(unreachable_patterns)]
            other => J::Arr(vec![J::s("other"), J::Str(format!("{:?}", other))]),
        }
    }

    fn rvalue(&self, rv: &Rvalue<'tcx>) -> J {
        match rv {
            Rvalue::Use(op, ..) => J::Arr(vec![J::s("use"), self.operand(op)]),
            Rvalue::Repeat(op, n) => {
                let cnt = n.try_to_target_usize(self.tcx).map(|v| J::Num(v as i128)).unwrap_or(J::Null);
                J::Arr(vec![J::s("repeat"), self.operand(op), cnt])
            }
            Rvalue::Ref(_, bk, p) => {
                let k = match bk {
                    mir::BorrowKind::Shared => "shared",
                    mir::BorrowKind::Mut { .. } => "mut",
                    mir::BorrowKind::Fake(_) => "fake",
                };
                J::Arr(vec![J::s("ref"), J::s(k), self.place(p)])
            }
            Rvalue::RawPtr(_, p) => J::Arr(vec![J::s("rawptr"), self.place(p)]),
            Rvalue::Cast(k, op, t) => {
                J::Arr(vec![J::s("cast"), J::Str(format!("{:?}", k)), self.operand(op), J::Str(format!("{}", t))])
            }
            Rvalue::BinaryOp(op, ab) => {
                J::Arr(vec![J::s("bin"), J::Str(format!("{:?}", op)), self.operand(&ab.0), self.operand(&ab.1)])
            }
            Rvalue::UnaryOp(op, a) => J::Arr(vec![J::s("un"), J::Str(format!("{:?}", op)), self.operand(a)]),
            Rvalue::Discriminant(p) => J::Arr(vec![J::s("discr"), self.place(p)]),
            Rvalue::Aggregate(k, ops) => {
                let kd = match &**k {
                    AggregateKind::Array(t) => J::Obj(vec![("k".into(), J::s("array")), ("ty".into(), J::Str(format!("{}", t)))]),
                    AggregateKind::Tuple => J::Obj(vec![("k".into(), J::s("tuple"))]),
                    AggregateKind::Adt(did, vidx, args, _, active) => {
                        let ad = self.tcx.adt_def(*did);
                        let v = ad.variant(*vidx);
                        let fields: Vec<J> = match active {
                            Some(f) => vec![J::Str(v.fields[*f].name.to_string())],
                            None => v.fields.iter().map(|f| J::Str(f.name.to_string())).collect(),
                        };
                        J::Obj(vec![
                            ("k".into(), J::s("adt")),
                            ("path".into(), J::Str(def_path(self.tcx, *did))),
                            ("variant".into(), J::Str(v.name.to_string())),
                            ("vidx".into(), J::Num(vidx.as_usize() as i128)),
                            ("gargs".into(), gargs_j(args)),
                            ("fields".into(), J::Arr(fields)),
                        ])
                    }
                    AggregateKind::Closure(did, args) => J::Obj(vec![
                        ("k".into(), J::s("closure")),
                        ("path".into(), J::Str(def_path(self.tcx, *did))),
                        ("gargs".into(), gargs_j(args)),
                    ]),
                    other => J::Obj(vec![("k".into(), J::s("other")), ("dbg".into(), J::Str(format!("{:?}", other)))]),
                };
                J::Arr(vec![J::s("agg"), kd, J::Arr(ops.iter().map(|o| self.operand(o)).collect())])
            }
            Rvalue::CopyForDeref(p) => J::Arr(vec![J::s("use"), J::Arr(vec![J::s("copy"), self.place(p)])]),
            other => J::Arr(vec![J::s("other"), J::Str(format!("{:?}", other))]),
        }
    }

    fn span_fields(&self, sp: Span, o: &mut Vec<(String, J)>) {
        let (f, l, c) = span_file_line(self.tcx, sp);
        o.push(("at".into(), J::Str(format!("{}:{}:{}", f, l, c))));
        let mt = macro_tag(sp);
        if !mt.is_empty() {
            o.push(("mt".into(), J::Str(mt)));
            // also the outermost call site (where the macro was invoked)
            let cs = sp.source_callsite();
            let (f2, l2, c2) = span_file_line(self.tcx, cs);
            o.push(("callsite".into(), J::Str(format!("{}:{}:{}", f2, l2, c2))));
        }
    }

    fn bb(b: BasicBlock) -> J { J::Num(b.as_usize() as i128) }

    fn unwind(u: &mir::UnwindAction) -> J {
        match u {
            mir::UnwindAction::Cleanup(b) => Self::bb(*b),
            _ => J::Null,
        }
    }

    fn terminator(&self, t: &mir::Terminator<'tcx>) -> J {
        let mut o: Vec<(String, J)> = Vec::new();
        match &t.kind {
            TerminatorKind::Goto { target } => {
                o.push(("k".into(), J::s("goto")));
                o.push(("t".into(), Self::bb(*target)));
            }
            TerminatorKind::SwitchInt { discr, targets } => {
                o.push(("k".into(), J::s("switch")));
                o.push(("d".into(), self.operand(discr)));
                let dty = discr.ty(self.body, self.tcx);
                o.push(("dty".into(), J::Str(format!("{}", dty))));
                let vals: Vec<J> = targets
                    .iter()
                    .map(|(v, b)| {
                        let vj = if v > i128::MAX as u128 { J::Str(v.to_string()) } else { J::Num(v as i128) };
                        J::Arr(vec![vj, Self::bb(b)])
                    })
                    .collect();
                o.push(("vals".into(), J::Arr(vals)));
                o.push(("else".into(), Self::bb(targets.otherwise())));
            }
            TerminatorKind::Return => o.push(("k".into(), J::s("ret"))),
            TerminatorKind::Unreachable => o.push(("k".into(), J::s("unreach"))),
            TerminatorKind::UnwindResume => o.push(("k".into(), J::s("resume"))),
            TerminatorKind::UnwindTerminate(_) => o.push(("k".into(), J::s("abort"))),
            TerminatorKind::Drop { place, target, unwind, .. } => {
                o.push(("k".into(), J::s("drop")));
                o.push(("p".into(), self.place(place)));
                o.push(("t".into(), Self::bb(*target)));
                o.push(("u".into(), Self::unwind(unwind)));
            }
            TerminatorKind::Call { func, args, destination, target, unwind, fn_span, .. } => {
                o.push(("k".into(), J::s("call")));
                match func {
                    Operand::Constant(c) => {
                        if let ty::FnDef(did, ga) = c.const_.ty().kind() {
                            o.push(("fn".into(), self.fn_ref(*did, ga)));
                        } else {
                            o.push(("fnop".into(), self.operand(func)));
                        }
                    }
                    _ => o.push(("fnop".into(), self.operand(func))),
                }
                o.push(("args".into(), J::Arr(args.iter().map(|a| self.operand(&a.node)).collect())));
                o.push(("dest".into(), self.place(destination)));
                o.push(("t".into(), target.map(Self::bb).unwrap_or(J::Null)));
                o.push(("u".into(), Self::unwind(unwind)));
                let (f, l, c) = span_file_line(self.tcx, *fn_span);
                o.push(("fn_at".into(), J::Str(format!("{}:{}:{}", f, l, c))));
            }
            TerminatorKind::Assert { cond, expected, msg, target, unwind } => {
                o.push(("k".into(), J::s("assert")));
                o.push(("cond".into(), self.operand(cond)));
                o.push(("exp".into(), J::Bool(*expected)));
                let m = match &**msg {
                    AssertKind::BoundsCheck { len, index } => J::Obj(vec![
                        ("k".into(), J::s("BoundsCheck")),
                        ("len".into(), self.operand(len)),
                        ("index".into(), self.operand(index)),
                    ]),
                    AssertKind::Overflow(op, a, b) => J::Obj(vec![
                        ("k".into(), J::s("Overflow")),
                        ("op".into(), J::Str(format!("{:?}", op))),
                        ("a".into(), self.operand(a)),
                        ("b".into(), self.operand(b)),
                    ]),
                    AssertKind::OverflowNeg(a) => J::Obj(vec![("k".into(), J::s("OverflowNeg")), ("a".into(), self.operand(a))]),
                    AssertKind::DivisionByZero(a) => {
                        J::Obj(vec![("k".into(), J::s("DivisionByZero")), ("a".into(), self.operand(a))])
                    }
                    AssertKind::RemainderByZero(a) => {
                        J::Obj(vec![("k".into(), J::s("RemainderByZero")), ("a".into(), self.operand(a))])
                    }
                    other => J::Obj(vec![("k".into(), J::s("Other")), ("dbg".into(), J::Str(format!("{:?}", other)))]),
                };
                o.push(("msg".into(), m));
                o.push(("t".into(), Self::bb(*target)));
                o.push(("u".into(), Self::unwind(unwind)));
            }
            other => {
                o.push(("k".into(), J::s("other")));
                o.push(("dbg".into(), J::Str(format!("{:?}", other))));
                o.push(("succ".into(), J::Arr(t.successors().map(Self::bb).collect())));
            }
        }
        self.span_fields(t.source_info.span, &mut o);
        J::Obj(o)
    }
}

pub fn dump_body<'tcx>(tcx: TyCtxt<'tcx>, did: DefId, body: &Body<'tcx>) -> J {
    let env = TypingEnv::post_analysis(tcx, did);
    let cx = Cx { tcx, did, body, env };
    let _ = cx.did;
    // locals
    let mut names: Vec<Option<String>> = vec![None; body.local_decls.len()];
    let mut upvars: Vec<J> = Vec::new();
    for vdi in &body.var_debug_info {
        if let VarDebugInfoContents::Place(p) = &vdi.value {
            if p.projection.is_empty() {
                names[p.local.as_usize()] = Some(vdi.name.to_string());
            } else {
                upvars.push(J::Obj(vec![("name".into(), J::Str(vdi.name.to_string())), ("place".into(), cx.place(p))]));
            }
        }
    }
    let locals: Vec<J> = body
        .local_decls
        .iter_enumerated()
        .map(|(l, d)| {
            let mut o = vec![("ty".to_string(), J::Str(format!("{}", d.ty)))];
            if let Some(n) = &names[l.as_usize()] {
                o.push(("name".into(), J::Str(n.clone())));
            }
            J::Obj(o)
        })
        .collect();
    let mut blocks: Vec<J> = Vec::new();
    for (_bb, data) in body.basic_blocks.iter_enumerated() {
        let mut stmts: Vec<J> = Vec::new();
        for st in &data.statements {
            match &st.kind {
                StatementKind::Assign(b) => {
                    let (lhs, rv) = &**b;
                    let mut o = vec![
                        ("k".to_string(), J::s("assign")),
                        ("lhs".to_string(), cx.place(lhs)),
                        ("rv".to_string(), cx.rvalue(rv)),
                    ];
                    cx.span_fields(st.source_info.span, &mut o);
                    stmts.push(J::Obj(o));
                }
                StatementKind::SetDiscriminant { place, variant_index } => {
                    stmts.push(J::Obj(vec![
                        ("k".to_string(), J::s("setdiscr")),
                        ("lhs".to_string(), cx.place(place)),
                        ("vidx".to_string(), J::Num(variant_index.as_usize() as i128)),
                    ]));
                }
                StatementKind::Intrinsic(i) => {
                    stmts.push(J::Obj(vec![("k".to_string(), J::s("intrinsic")), ("dbg".to_string(), J::Str(format!("{:?}", i)))]));
                }
                _ => {}
            }
        }
        let term = data.terminator.as_ref().map(|t| cx.terminator(t)).unwrap_or(J::Null);
        blocks.push(J::Obj(vec![
            ("stmts".to_string(), J::Arr(stmts)),
            ("term".to_string(), term),
            ("cleanup".to_string(), J::Bool(data.is_cleanup)),
        ]));
    }
    // promoted bodies are not dumped; constants referencing them carry "promoted"
    J::Obj(vec![
        ("argc".to_string(), J::Num(body.arg_count as i128)),
        ("ret_ty".to_string(), J::Str(format!("{}", body.return_ty()))),
        ("locals".to_string(), J::Arr(locals)),
        ("upvars".to_string(), J::Arr(upvars)),
        ("blocks".to_string(), J::Arr(blocks)),
    ])
}
