// Minimal JSON value + writer (no dependencies).
pub enum J {
    Null,
    Bool(bool),
    Num(i128),
    Str(String),
    Arr(Vec<J>),
    Obj(Vec<(String, J)>),
}

fn esc(s: &str, out: &mut String) {
    out.push('"');
    for c in s.chars() {
        match c {
            '"' => out.push_str("\\\""),
            '\\' => out.push_str("\\\\"),
            '\n' => out.push_str("\\n"),
            '\r' => out.push_str("\\r"),
            '\t' => out.push_str("\\t"),
            c if (c as u32) < 0x20 => out.push_str(&format!("\\u{:04x}", c as u32)),
            c => out.push(c),
        }
    }
    out.push('"');
}

impl J {
    pub fn s(x: &str) -> J { J::Str(x.to_string()) }

    pub fn write(&self, out: &mut String) {
        match self {
            J::Null => out.push_str("null"),
            J::Bool(b) => out.push_str(if *b { "true" } else { "false" }),
            J::Num(n) => {
                // Python's json module parses integers of any size exactly
                out.push_str(&n.to_string());
            }
            J::Str(s) => esc(s, out),
            J::Arr(v) => {
                out.push('[');
                for (i, x) in v.iter().enumerate() {
                    if i > 0 {
                        out.push(',');
                    }
                    x.write(out);
                }
                out.push(']');
            }
            J::Obj(v) => {
                out.push('{');
                for (i, (k, x)) in v.iter().enumerate() {
                    if i > 0 {
                        out.push(',');
                    }
                    esc(k, out);
                    out.push(':');
                    x.write(out);
                }
                out.push('}');
            }
        }
    }
}
