#!/bin/bash
# usage: tools/run_seeded.sh [seed-name ...]   (default: all under /verif/seeded)
# For each seeded change: copy /repo to a scratch dir, apply patch.diff, run every registered check's quick command against
# the copy, print the checks that report a violation. Nothing is left behind; /repo itself is never modified.
set -u
V=/verif
SD=${SEED_DIR:-/verif/seeded}
cd $V
names=("$@")
if [ ${#names[@]} -eq 0 ]; then names=($(ls $SD 2>/dev/null)); fi
ids=$(python3 -c "import json;print(' '.join(c['property_id'] for c in json.load(open('$V/MANIFEST.json'))['checks']))")
for n in "${names[@]}"; do
  P=$SD/$n/patch.diff
  [ -f "$P" ] || { echo "$n: no patch.diff"; continue; }
  D=$(mktemp -d /tmp/gdseed.XXXXXX)
  rsync -a --exclude target --exclude .git /repo/ "$D/"
  if ! (cd "$D" && patch -p1 -s --no-backup-if-mismatch < "$P"); then echo "$n: PATCH DOES NOT APPLY"; rm -rf "$D"; continue; fi
  hit=""
  for id in $ids; do
    out=$(GDVERIF_REPO="$D" GDVERIF_EVIDENCE_DIR="$D/.ev" GDVERIF_REPLAY_DIR="$D/.rp" ./check "$id" 2>&1)
    if echo "$out" | grep -q "^VIOLATION"; then
      k=$(echo "$out" | grep -m1 "^  key=" | cut -c7-160)
      hit="$hit $id"
      echo "   $n: $id -> $k"
    fi
  done
  want=$(python3 -c "import json;print(json.load(open('$SD/$n/meta.json')).get('property',''))" 2>/dev/null)
  echo "$n (breaks $want): caught by:${hit:- NONE}"
  rm -rf "$D"
done
