#!/bin/bash
# usage: tools/diff_benign.sh <name> <ID>   -- full violation text of one check on one benign variant
V=/verif; n=$1; id=$2
D=$(mktemp -d /tmp/gdbenign.XXXXXX)
rsync -a --exclude target --exclude .git /repo/ "$D/"
(cd "$D" && patch -p1 -s --no-backup-if-mismatch < $V/benign/$n.diff)
cd $V; GDVERIF_REPO="$D" GDVERIF_EVIDENCE_DIR="$D/.ev" GDVERIF_REPLAY_DIR="$D/.rp" ./check "$id" 2>&1 | grep -v "^note"
rm -rf "$D"
