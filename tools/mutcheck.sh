#!/bin/bash
# usage: tools/mutcheck.sh <patch-file|-e 'sed expr' file> <ID> [<ID>...]
# Applies a change to a scratch copy of /repo (outside /repo and /verif), runs the named checks against it, removes the copy.
set -u
D=$(mktemp -d /tmp/gdmut.XXXXXX)
rsync -a --exclude target --exclude .git /repo/ "$D/"
if [ "$1" = "-e" ]; then
  sed -i -E "$2" "$D/$3" || exit 9
  shift 3
else
  (cd "$D" && patch -p1 -s < "$1") || { echo "patch failed"; rm -rf "$D"; exit 9; }
  shift
fi
(cd "$D" && diff -ru /repo/crates crates | grep -E '^[+-]' | grep -vE '^(\+\+\+|---)' | head -12)
rc=0
for id in "$@"; do
  GDVERIF_REPO="$D" GDVERIF_EVIDENCE_DIR="$D/.ev" GDVERIF_REPLAY_DIR="$D/.rp" /verif/check "$id" 2>&1 | grep -E "^(VIOLATION|  key=|C[0-9]+ tier|KNOWN)" | cut -c1-260
done
rm -rf "$D"
