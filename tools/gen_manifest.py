#!/usr/bin/env python3
"""Regenerates /verif/MANIFEST.json from the table below (checks are registered only once they pass on the unchanged tree)."""
import json, os
V = os.path.dirname(os.path.dirname(os.path.abspath(__file__)))
PROPS = [json.loads(l)["id"] for l in open(os.path.join(V, "properties.jsonl"))]

CHECKS = {
    # id: (technique, level text, level note, design_ref)
    "C10": ("call-graph coverage (who-may-call), argument provenance and loop-shape rules over resolved MIR",
            "Decides the structural necessary conditions of the retry contract: every send/receive site is inside a unit handed to "
            "retry_on_timeout on all call chains, the count comes from the caller's TimeoutSettings, the helper loops at most r+1 times "
            "and retries exactly the two transport error kinds, which only the transport layer can construct. Enumerates all such sites "
            "of the current tree (exhaustive over code, not over runs).",
            "Does not decide 'same result as with no faults'. Trusts rustc's MIR and callee resolution and the gdfacts dump.", "DESIGN 4 C10"),
}
NA_REASON = "check not registered yet in this commit (machinery under construction; see DESIGN.md section 4 for the planned static rules)"


def main():
    m = {
        "version": 1,
        "setup_cmd": "cd /verif/gdfacts && cargo +nightly build --release --offline && cd /verif && python3 -m compileall -q gdverif",
        "hooks": {
            "guard": "gamedig_verif",
            "enable": "none needed: the static analysis reads the unmodified sources (cargo +nightly check with the gdfacts driver as RUSTC_WORKSPACE_WRAPPER); no cfg-guarded hooks exist",
            "baseline_off_cmd": "cd /repo && cargo test --workspace --no-fail-fast --offline",
            "source_commits": [],
            "add_only": True,
        },
        "engines": [
            {"name": "gdfacts", "path": "gdfacts/", "serves_properties": PROPS,
             "kind_free_text": "rustc_private driver dumping MIR, typed HIR, impls, ADTs and consts of every workspace crate as JSON facts"},
            {"name": "gdverif", "path": "gdverif/", "serves_properties": PROPS,
             "kind_free_text": "Python rule packs: abstract interpretation (intervals + zones + inferred callee contracts), loop classification, call-graph and provenance rules, table extraction and comparison"},
        ],
        "checks": [],
        "notes": "All checks are static: they extract facts from /repo's current working tree on every run (cached by tree content hash) and never execute repository code.",
        "not_applicable": [],
    }
    for pid in PROPS:
        if pid in CHECKS:
            tech, text, note, ref = CHECKS[pid]
            m["checks"].append({
                "property_id": pid,
                "quick_cmd": "./check %s --tier quick" % pid,
                "thorough_cmd": "./check %s --tier thorough" % pid,
                "evidence_file": "evidence/%s.json" % pid,
                "replay_cmd_template": "./check %s --replay {path}" % pid,
                "engine": "gdverif",
                "level_claimed": {"category": "other", "text": text, "design_ref": ref},
                "level_note": note,
                "technique": "static analysis: " + tech,
            })
        else:
            m["not_applicable"].append({"property_id": pid, "reason": NA_REASON})
    with open(os.path.join(V, "MANIFEST.json"), "w") as fh:
        json.dump(m, fh, indent=1)


if __name__ == "__main__":
    main()
