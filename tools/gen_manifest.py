#!/usr/bin/env python3
"""Regenerates /verif/MANIFEST.json from the table below (checks are registered only once they pass on the unchanged tree)."""
import json, os
V = os.path.dirname(os.path.dirname(os.path.abspath(__file__)))
PROPS = [json.loads(l)["id"] for l in open(os.path.join(V, "properties.jsonl"))]

TB = "Trusts rustc's MIR/HIR construction, type check and Instance::try_resolve, the gdfacts dump, and that std/dependency functions outside the may-panic table are total. "
CHECKS = {
    "C01": ("panic-site ledger over MIR (every Assert terminator and may-panic call) discharged by abstract interpretation (intervals + zone facts + inferred callee contracts + reviewed rows with re-verified anchors); loop-exit classification; recursion check",
            "Enumerates every potential panic site (arithmetic overflow, bounds, division, unwrap/expect, slicing, explicit panic) and every loop in every hand-written or local-macro body of the library from the compiler's MIR and requires each to be discharged by a machine-checked argument; an undischarged or newly introduced site is a violation naming the function and operands. This decides the totality clause for all reply contents at once (the analysis abstracts over reply bytes), which no finite test set can.",
            TB + "Necessary-condition check for 'returns once silent' (loop classes), not a termination proof; timing is C12; allocation aborts are C13.", "DESIGN 4 C01, 3 E1/E2"),
    "C11": ("typed-HIR shape rules on every GatherToggle match + who-may-call on section request functions + value analysis of the app-id guard",
            "Decides that each section request can only be issued from the Try/Enforce arm of its own toggle with the prescribed error handling (.ok() vs ?), lands in its own response field, and that BadGame is reachable only under check_app_id && !is_specified_id with is_specified_id set only under app-id equality.",
            TB + "Does not decide wire-level absence of requests (C09/C10 cover the send sites).", "DESIGN 4 C11"),
    "C12": ("must-pass-through (dominance) on socket constructors, who-may-call on raw socket APIs, argument provenance of timeout settings, reviewed table of the canonical terms of every socket / http / TimeoutSettings function",
            "Decides the wiring half of the property: every socket is created through code paths that apply the caller's (or non-zero default) timeouts with read->read and write->write, TCP uses connect_timeout, the HTTP agent gets the three timeouts, the UDP bind address follows the target's family, the URL host is never a bare IpAddr, UDP receive returns exactly buf[..n].",
            TB + "No timing claim is decided (attempts x timeout, scheduling slack, kernel behaviour): that clause needs real sockets and is outside this family.", "DESIGN 4 C12"),
    "C13": ("allocation-size provenance over MIR: every capacity-taking allocation classified CONST/TYPE/LEN/PARAM by the interval+zone analysis (element layout sizes from rustc), receive-size and send-in-loop rules",
            "Enumerates every with_capacity / vec![x; n] / reserve-style site of the library and requires its size operand to be bounded by a constant, an integer type/mask/min (<= 16 MiB with the element's layout size) or the length of data already held; receive buffers must be bounded constants; sends must sit outside loops or in receive-driven loops. The valve decompressed-size allocation is a recorded known finding.",
            TB + "The 64 MiB live total and allocations inside dependencies are not decided.", "DESIGN 4 C13, 3 E3"),
    "C19": ("result-not-dropped dataflow on MIR for every local Result-returning call of the CLI, panic-site ledger over the CLI crate and over the library's flag value parsers, provenance of XML element-name arguments, reviewed table of the canonical terms of main / dispatch / writers",
            "Decides that no writer/lookup Result in the CLI is discarded and main returns Result (errors exit non-zero), that the CLI's panic sites are discharged or reviewed, and flags data-derived XML element names (recorded known finding).",
            TB + "Well-formedness/faithfulness of the emitted JSON/XML/BSON text and exit statuses are serialiser/run-time behaviour and not decided.", "DESIGN 4 C19"),
    "C20": ("panic-site ledger and loop classification over the id-tests crate, bounded-recursion rule on the typed HIR",
            "Enumerates every panic site of the naming checker from MIR; each is discharged, reviewed with anchors, or (the two explicit panics on <digits>-<text> names, probe-confirmed) a recorded known finding; loops are iterator-driven and the single recursion is bounded by is_mod_name. The set of decisions that read the proposed id is fixed to the three reviewed ones (equality with the computed expected id twice, the generator-implied lower-case precondition).",
            TB + "That the generator computes the intended id for every name is value-level and not decided.", "DESIGN 4 C20"),
    "C15": ("symbolic evaluation of every CommonResponse/CommonPlayer accessor (impls enumerated from the trait-impl index) to its canonical returned value; transparent-wrapper stripping with closure transparency; same-name-or-reviewed-synonym rule; default as_json wiring on the canonical struct value",
            "For all impls (enumerated, so a new impl is checked automatically) every accessor must return the same-named (or reviewed synonym) field of its own type, as_json must wire each JSON field to the same-named accessor, as_original must wrap self.",
            TB + "Value equality at run time and serde's rendering are not decided.", "DESIGN 4 C15"),
    "C17": ("inductive type-invariant proof (cursor <= data.len()) over all constructors and writers of the private field using the abstract interpreter, per-impl decoder contract, ghost-variable proof of unchanged-on-error, sibling agreement of BufferRead impls, VarInt loop-bound rules, panic-site ledger for the reader/codecs, reviewed table of the canonical terms of every reader / codec function (the reference model)",
            "Proves by induction over the closed set of functions able to write Buffer.cursor that the position never leaves the packet, that failed reads leave it unchanged, that read advances by size_of::<T>(), that each BufferRead impl uses its own width/byte order, that VarInt decoding reads at most 5 bytes and rejects over-long encodings; all slice/arith sites in the reader and codecs are discharged.",
            TB + "VarInt/string round-trip equality over all values and the reference-model conformance over operation sequences are value-level and not decided.", "DESIGN 4 C17"),
    "C18": ("who-may-construct enumeration of every TimeoutSettings aggregate (including derive-generated bodies), dominance of is_zero rejections, inferred contract of the CLI value parser, panic-site ledger for settings-dependent sites, compile-fail witnesses for the closed constructor set",
            "Enumerates all construction sites of TimeoutSettings in all bodies, requires each to be validated (constructor checks / non-zero constants / value parser proven to reject 0), discharges the settings-dependent panic sites, and (thorough) pins with compile_fail,E0451 that no other construction path exists outside the crate. The derive(Deserialize) path is a recorded known finding.",
            TB + "OS behaviour for extreme durations is not decided.", "DESIGN 4 C18"),
    # id: (technique, level text, level note, design_ref)
    "C02": ("symbolic evaluation of the typed HIR of every exported function of the protocol (private helpers inlined, let-bindings substituted, control flow put in a canonical form) into a canonical wire term - ordered reads with resolved width / signedness / byte order / decoder, sends, order-sensitive mutations, guards, loops, returned field values - compared row by row with reviewed tables; coverage obligation that every reachable helper is part of some term", "The whole Valve query (info Source / obsolete GoldSrc, challenge loop, split and compressed reassembly, players, rules, app-id check, gather toggles, per-game projections) is reduced to one canonical term per exported function and compared with a table reviewed against the Valve Server Queries specification; any change of order, width, endianness, mask, condition, skip or destination field is reported with both rows, while renames, helper extraction, literal reordering and if/match restyling are not. Defects found by reading the tables were repaired (GoldSrc header byte, GoldSrc NULL byte, per-fragment size/crc).", TB + "Equality of decoded values for all server states (UTF-8, bzip2, float bits) needs execution and is not decided. The tables are the oracle; rows I could not confirm from documentation are regression locks.", "DESIGN 4 C02, 3 E4/E5"),
    "C03": ("symbolic evaluation of the typed HIR of every exported function of the protocol (private helpers inlined, let-bindings substituted, control flow put in a canonical form) into a canonical wire term - ordered reads with resolved width / signedness / byte order / decoder, sends, order-sensitive mutations, guards, loops, returned field values - compared row by row with reviewed tables; coverage obligation that every reachable helper is part of some term + call-sequence rows for the auto-detect order", "Java JSON pointers, Bedrock pong layout and ';' index table, legacy 1.6/1.4/b1.8 kick packets, fixed labels, and the Java -> Bedrock -> legacy (1.6, 1.4, b1.8) try order are tabled and compared.", TB + "Exactness of decoded values (serde_json, UTF-16) is not decided.", "DESIGN 4 C03"),
    "C04": ("symbolic evaluation of the typed HIR of every exported function of the protocol (private helpers inlined, let-bindings substituted, control flow put in a canonical form) into a canonical wire term - ordered reads with resolved width / signedness / byte order / decoder, sends, order-sensitive mutations, guards, loops, returned field values - compared row by row with reviewed tables; coverage obligation that every reachable helper is part of some term", "GameSpy 1/2/3 key tables (typed fields taken with remove, fallbacks, per-player/team keys and columns), GS2 table schedule, GS3 handshake, packet header and section parsing are tabled and compared. Reading the GS3 table against node-gamedig exposed that player/team sections were never decoded (cursor moved forward instead of back after the marker test); probe-confirmed and repaired.", TB + "Values for all server states and multi-part merges are not decided (C08 covers arrival order).", "DESIGN 4 C04"),
    "C05": ("symbolic evaluation of the typed HIR of every exported function of the protocol (private helpers inlined, let-bindings substituted, control flow put in a canonical form) into a canonical wire term - ordered reads with resolved width / signedness / byte order / decoder, sends, order-sensitive mutations, guards, loops, returned field values - compared row by row with reviewed tables; coverage obligation that every reachable helper is part of some term", "Quake 1/2/3 response prefixes, variable key table with fallbacks, per-version player line field order, quote stripping and the player-loop guard are tabled and compared (the constant-false guard defect was repaired).", TB + "Exact values are not decided.", "DESIGN 4 C05"),
    "C06": ("symbolic evaluation of the typed HIR of every exported function of the protocol (private helpers inlined, let-bindings substituted, control flow put in a canonical form) into a canonical wire term - ordered reads with resolved width / signedness / byte order / decoder, sends, order-sensitive mutations, guards, loops, returned field values - compared row by row with reviewed tables; coverage obligation that every reachable helper is part of some term", "Unreal 2 response header, server-info / rules / players schedules, bot-iff-ping-0 branch, and the string decoder body (length byte, UCS-2 flag, Latin-1 range excluding the length byte, colour stripping) are tabled and compared.", TB + "Colour-strip semantics on all strings are not decided.", "DESIGN 4 C06"),
    "C07": ("symbolic evaluation of the typed HIR of every exported function of the protocol (private helpers inlined, let-bindings substituted, control flow put in a canonical form) into a canonical wire term - ordered reads with resolved width / signedness / byte order / decoder, sends, order-sensitive mutations, guards, loops, returned field values - compared row by row with reviewed tables; coverage obligation that every reachable helper is part of some term", "FFOW, Savage 2, JC2M, Mindustry schedules, The Ship and Battalion 1944 projections/overrides and the Eco Root -> Response map are tabled and compared.", TB + "Values and HTTP transport are not decided.", "DESIGN 4 C07"),
    "C08": ("effect/ordering analysis of every reassembly loop over MIR: completion-mode classification (count / silence / single-datagram flag), ordered-fold detection through callees with result-flow, sort-coverage of all fragment constructions", "Necessary conditions for order independence decided structurally for all five reassembly loops; the Valve first-fragment bypass was repaired; GameSpy 1/3 flag-driven completion and Unreal 2 arrival-ordered lists are recorded known findings.", TB + "That permutations actually yield equal values needs execution.", "DESIGN 4 C08, 3 E8"),
    "C09": ("symbolic evaluation of the typed HIR of every exported function of the protocol (private helpers inlined, let-bindings substituted, control flow put in a canonical form) into a canonical wire term - ordered reads with resolved width / signedness / byte order / decoder, sends, order-sensitive mutations, guards, loops, returned field values - compared row by row with reviewed tables; coverage obligation that every reachable helper is part of some term projected onto socket construction, sends and unit calls (the request table) + every Socket::send call site must lie inside a tabled term + address/port provenance over MIR at all public (address, port) entry points", "All request literals, framings, field byte orders and challenge placements are tabled as the projection of each I/O function's term; every send site is part of a tabled term; each of the ~100 public entry points builds SocketAddr::new(*address, port.unwrap_or(K)) or forwards unchanged; sockets use the stored address. The little-endian Java port was repaired.", TB + "Bytes on the wire at run time and all 2^32 challenge values are not enumerated; the move-only path makes the echo value-independent.", "DESIGN 4 C09"),
    "C14": ("definition-table cross-check: GAMES rows extracted from the typed HIR of the static, joined with the dispatcher's per-protocol call arms and each game's wrapper (default port, protocol function, engine, gather settings) with an observational-equality rule for engines", "All 96 table rows are joined with the generic dispatcher and the dedicated modules; mismatching ports / protocol functions / engines / gather settings are reported per game. Base Defense was repaired; The Forest, Rising World, Eco and Minecraft-auto-detect mismatches are recorded known findings; Arma Reforger's differing but unobservable engine id is correctly not reported.", TB + "Equal responses for arbitrary server behaviour beyond equality of these parameters are not decided.", "DESIGN 4 C14, 3 E7"),
    "C16": ("symbolic evaluation of the typed HIR of every exported function of the protocol (private helpers inlined, let-bindings substituted, control flow put in a canonical form) into a canonical wire term - ordered reads with resolved width / signedness / byte order / decoder, sends, order-sensitive mutations, guards, loops, returned field values - compared row by row with reviewed tables; coverage obligation that every reachable helper is part of some term for the filter key table, group prefix, filter string, request layout, reply schedule and paging loop", "insert/insert_nand/insert_nor group wiring, the 18 filter keys, the \\\\nand\\\\N / \\\\nor\\\\N prefix, the request layout, the big-endian reply schedule and the paging loop (seed, exits, terminator pop) are tabled and compared; the swapped groups and the malformed prefix were repaired.", TB + "Denotation of all insertion sequences (map iteration order) is not decided.", "DESIGN 4 C16"),
    "C10": ("call-graph coverage (who-may-call), argument provenance over resolved MIR; trip-count derivation and no-silent-discard rule on canonical terms (symbolic evaluation of typed HIR)",
            "Decides the structural necessary conditions of the retry contract: every send/receive site is inside a unit handed to "
            "retry_on_timeout on all call chains, the count comes from the caller's TimeoutSettings, the helper loops at most r+1 times (bound derived from the loop counter, whatever the loop is written like), no receive loop can drop a datagram silently, "
            "and retries exactly the two transport error kinds, which only the transport layer can construct. Enumerates all such sites "
            "of the current tree (exhaustive over code, not over runs).",
            "Does not decide 'same result as with no faults'. Trusts rustc's MIR and callee resolution and the gdfacts dump.", "DESIGN 4 C10"),
}
NA_REASON = "check not registered yet in this commit (machinery under construction; see DESIGN.md section 4 for the planned static rules)"


def main():
    m = {
        "version": 1,
        "setup_cmd": "cd /verif/gdfacts && cargo +nightly build --release --offline && cd /verif && python3 -m compileall -q gdverif",
        "hooks": {
            "guard": "gamedig_verif",
            "enable": "none needed: the static analysis reads the unmodified sources (cargo +nightly check with the gdfacts driver as RUSTC_WORKSPACE_WRAPPER); no cfg-guarded hooks exist",
            "baseline_off_cmd": "cd /repo && cargo test --workspace --no-fail-fast --offline",
            "source_commits": [],
            "add_only": True,
        },
        "engines": [
            {"name": "gdfacts", "path": "gdfacts/", "serves_properties": PROPS,
             "kind_free_text": "rustc_private driver dumping MIR, typed HIR, impls, ADTs and consts of every workspace crate as JSON facts"},
            {"name": "gdverif", "path": "gdverif/", "serves_properties": PROPS,
             "kind_free_text": "Python rule packs: abstract interpretation (intervals + zones + inferred callee contracts), loop classification, call-graph and provenance rules, table extraction and comparison"},
        ],
        "checks": [],
        "notes": "All checks are static: they extract facts from /repo's current working tree on every run (cached by tree content hash) and never execute repository code.",
        "not_applicable": [],
    }
    for pid in PROPS:
        if pid in CHECKS:
            tech, text, note, ref = CHECKS[pid]
            m["checks"].append({
                "property_id": pid,
                "quick_cmd": "./check %s --tier quick" % pid,
                "thorough_cmd": "./check %s --tier thorough" % pid,
                "evidence_file": "evidence/%s.json" % pid,
                "replay_cmd_template": "./check %s --replay {path}" % pid,
                "engine": "gdverif",
                "level_claimed": {"category": "other", "text": text, "design_ref": ref},
                "level_note": note,
                "technique": "static analysis: " + tech,
            })
        else:
            m["not_applicable"].append({"property_id": pid, "reason": NA_REASON})
    with open(os.path.join(V, "MANIFEST.json"), "w") as fh:
        json.dump(m, fh, indent=1)


if __name__ == "__main__":
    main()
