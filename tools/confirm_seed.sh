#!/bin/bash
# usage: tools/confirm_seed.sh <seed-out-dir> <demo-file-name> <dest-path-in-repo> <cargo test args...>
# Confirms an independently written breaking change: (1) it applies and the baseline suite still gives 57 passes,
# (2) the demonstration fails with the change, (3) passes without it. Uses a scratch copy of /repo under /tmp.
set -u
OUT=$1; DEMO=$2; DEST=$3; shift 3
S=/tmp/gdconfirm
mkdir -p $S
rsync -a --delete --exclude target --exclude .git /repo/ $S/src/
[ -d $S/target ] || cp -r /repo/target $S/target
export CARGO_TARGET_DIR=$S/target CARGO_NET_OFFLINE=true
cd $S/src
patch -p1 -s --no-backup-if-mismatch < $OUT/patch.diff || { echo "RESULT patch does not apply"; exit 9; }
echo "--- baseline suite with the change"
cargo test --workspace --no-fail-fast --offline 2>&1 | grep -E "^test result|^error\[" | head -8
mkdir -p $(dirname $DEST); cp $OUT/demo/$DEMO $DEST
echo "--- demo WITH the change (expected: fails)"
cargo test --offline "$@" 2>&1 | grep -E "^test result|^test .* (FAILED|ok)$|^error" | head -14
patch -R -p1 -s --no-backup-if-mismatch < $OUT/patch.diff
echo "--- demo WITHOUT the change (expected: passes)"
cargo test --offline "$@" 2>&1 | grep -E "^test result|^error" | head -6
