#!/bin/bash
# usage: tools/run_benign.sh [name ...]   (default: all /verif/benign/*.diff)
# Behaviour-preserving refactors of /repo: every registered check must stay silent on each (exit 0, no VIOLATION line).
# Each patch is applied to a scratch copy of /repo; nothing is left behind and /repo is never modified.
set -u
V=/verif
cd $V
names=("$@")
if [ ${#names[@]} -eq 0 ]; then names=($(ls $V/benign/*.diff | xargs -n1 basename | sed 's/\.diff$//')); fi
ids=$(python3 -c "import json;print(' '.join(c['property_id'] for c in json.load(open('$V/MANIFEST.json'))['checks']))")
bad=0
for n in "${names[@]}"; do
  P=$V/benign/$n.diff
  D=$(mktemp -d /tmp/gdbenign.XXXXXX)
  rsync -a --exclude target --exclude .git /repo/ "$D/"
  if ! (cd "$D" && patch -p1 -s --no-backup-if-mismatch < "$P"); then echo "$n: PATCH DOES NOT APPLY"; rm -rf "$D"; bad=1; continue; fi
  hit=""
  for id in $ids; do
    out=$(GDVERIF_REPO="$D" GDVERIF_EVIDENCE_DIR="$D/.ev" GDVERIF_REPLAY_DIR="$D/.rp" ./check "$id" 2>&1)
    if echo "$out" | grep -q "^VIOLATION"; then
      hit="$hit $id"
      echo "$out" | grep -A1 "^  key=" | cut -c1-260 | sed "s/^/   $n: $id /"
    fi
  done
  if [ -n "$hit" ]; then echo "$n: FALSE ALARM from:$hit"; bad=1; else echo "$n: silent"; fi
  rm -rf "$D"
done
exit $bad
