#!/usr/bin/env python3
"""(Re)generates /verif/spec/traces/<PROP>.json from the current tree for the function lists below.
Run by hand only, after which every changed row must be reviewed (git diff) before committing: the tables are the oracle."""
import json, os, sys
sys.path.insert(0, os.path.dirname(os.path.dirname(os.path.abspath(__file__))))
from gdverif import facts, tracespec as TS, sites as S

P = "gamedig::protocols::"
G = "gamedig::games::"
W = {"writer": True}
CL = {"calls": True}
# (module, fn name, self-type substring or None, options, table description)
TABLES = {
 "C02": {"provenance": "Valve Developer Wiki 'Server queries' (A2S_INFO / A2S_PLAYER / A2S_RULES, multi-packet response format), transcribed from memory and cross-read with node-gamedig valve.js; rows reviewed one by one",
  "fns": [
   ("protocols::valve::protocol", "new", "SplitPacket", {}, "split packet header (Source / GoldSrc)"),
   ("protocols::valve::protocol", "get_payload", "SplitPacket", W, "bzip2 + crc32 of compressed split payloads"),
   ("protocols::valve::protocol", "receive", "ValveProtocol", {}, "single vs split packet, reassembly"),
   ("protocols::valve::types", "new_from_bufferer", "Packet", {}, "packet header"),
   ("protocols::valve::protocol", "get_server_info", None, {}, "A2S_INFO (Source)"),
   ("protocols::valve::protocol", "get_goldsrc_server_info", None, {}, "A2S_INFO (obsolete GoldSrc)"),
   ("protocols::valve::protocol", "get_server_players", None, {}, "A2S_PLAYER"),
   ("protocols::valve::protocol", "get_server_rules", None, {}, "A2S_RULES"),
   ("protocols::valve::types", "from_gldsrc", "Server", W, "server type byte"),
   ("protocols::valve::types", "from_gldsrc", "Environment", W, "environment byte"),
   ("protocols::valve::types::game", "new_from_valve_response", None, {}, "per-game response projection"),
   ("protocols::valve::types::game", "from_valve_response", None, {}, "per-game player projection"),
   ("protocols::valve::types", "get_optional_extracted_data", None, W, "extra data projection"),
   ("protocols::valve::protocol", "new", "ValveProtocol", {}, "client construction (socket, retry count)"),
   ("protocols::valve::protocol", "get_request_data", None, {}, "request with retries"),
   ("protocols::valve::protocol", "get_response", None, {}, "info / players / rules sequencing, app-id check"),
   ("protocols::valve::protocol", "query", None, {}, "public entry"),
  ]},
 "C03": {"provenance": "wiki.vg 'Server List Ping' (Java JSON status, legacy 1.6 / 1.4 / beta 1.8 kick packets) and node-gamedig minecraftbedrock.js; pinned tree reviewed",
  "fns": [
   ("games::minecraft::protocol::java", "receive", None, {}, "java packet framing"),
   ("games::minecraft::protocol::java", "get_info_impl", None, CL, "java status JSON pointers"),
   ("games::minecraft::protocol::bedrock", "get_info_impl", None, CL, "bedrock unconnected pong"),
   ("games::minecraft::protocol::legacy_v1_6", "is_protocol", None, {}, "1.6 marker"),
   ("games::minecraft::protocol::legacy_v1_6", "get_response", None, {}, "1.6 fields"),
   ("games::minecraft::protocol::legacy_v1_6", "get_info_impl", None, CL, "1.6 kick packet"),
   ("games::minecraft::protocol::legacy_v1_4", "get_info_impl", None, CL, "1.4 kick packet"),
   ("games::minecraft::protocol::legacy_vb1_8", "get_info_impl", None, CL, "beta 1.8 kick packet"),
   ("games::minecraft::types", "from_bedrock_response", None, {}, "bedrock -> java projection"),
   ("games::minecraft::types", "from_bedrock", "GameMode", W, "bedrock game mode"),
   ("games::minecraft::protocol", "query", None, CL, "auto-detect order"),
   ("games::minecraft::protocol", "query_legacy", None, CL, "legacy order"),
   ("games::minecraft::protocol", "query_legacy_specific", None, CL, "legacy dispatch"),
   ("games::minecraft", "query", None, CL, "game-level auto-detect"),
   ("games::minecraft", "query_legacy", None, CL, "game-level legacy"),
   ("games::minecraft::protocol::java", "query", "Java", {}, "java entry"),
   ("games::minecraft::protocol::bedrock", "query", "Bedrock", {}, "bedrock entry"),
   ("games::minecraft::protocol::legacy_v1_6", "query", "LegacyV1_6", {}, "legacy 1.6 entry"),
   ("games::minecraft::protocol::legacy_v1_4", "query", "LegacyV1_4", {}, "legacy 1.4 entry"),
   ("games::minecraft::protocol::legacy_vb1_8", "query", "LegacyVB1_8", {}, "legacy b1.8 entry"),
   ("games::minecraft::protocol", "query_java", None, {}, "protocol-level java"),
   ("games::minecraft::protocol", "query_bedrock", None, {}, "protocol-level bedrock"),
   ("games::minecraft", "query_java", None, {}, "game-level java"),
   ("games::minecraft", "query_bedrock", None, {}, "game-level bedrock"),
   ("games::minecraft", "query_legacy_specific", None, {}, "game-level legacy dispatch"),
  ]},
 "C04": {"provenance": "node-gamedig gamespy1.js / gamespy2.js / gamespy3.js as cited by PROTOCOLS.md; pinned tree reviewed",
  "fns": [
   ("protocols::gamespy::common", "has_password", None, W, "password flag"),
   ("protocols::gamespy::protocols::one::protocol", "get_server_values_impl", None, {}, "GS1 key/value parts"),
   ("protocols::gamespy::protocols::one::protocol", "extract_players", None, {}, "GS1 per-player keys"),
   ("protocols::gamespy::protocols::one::protocol", "query", None, CL, "GS1 response mapping"),
   ("protocols::gamespy::protocols::one::protocol", "query_vars", None, CL, "GS1 raw variables"),
   ("protocols::gamespy::protocols::two::protocol", "data_as_table", None, {}, "GS2 table"),
   ("protocols::gamespy::protocols::two::protocol", "get_server_vars", None, {}, "GS2 key/value block"),
   ("protocols::gamespy::protocols::two::protocol", "get_teams", None, {}, "GS2 teams"),
   ("protocols::gamespy::protocols::two::protocol", "get_players", None, {}, "GS2 players"),
   ("protocols::gamespy::protocols::two::protocol", "query", None, CL, "GS2 response mapping"),
   ("protocols::gamespy::protocols::three::protocol", "receive", "GameSpy3", {}, "GS3 packet header"),
   ("protocols::gamespy::protocols::three::protocol", "get_server_packets_impl", None, {}, "GS3 splitnum packets"),
   ("protocols::gamespy::protocols::three::protocol", "data_to_map", None, {}, "GS3 key/value"),
   ("protocols::gamespy::protocols::three::protocol", "parse_players_and_teams", None, {}, "GS3 player/team sections"),
   ("protocols::gamespy::protocols::three::protocol", "query", None, CL, "GS3 response mapping"),
   ("protocols::gamespy::protocols::three::protocol", "query_vars", None, CL, "GS3 raw variables"),
   ("protocols::gamespy::protocols::three::protocol", "new_custom", "GameSpy3", {}, "GS3 client construction"),
   ("protocols::gamespy::protocols::three::protocol", "get_server_packets", "GameSpy3", {}, "GS3 packets with retries"),
  ]},
 "C05": {"provenance": "node-gamedig quake1.js/quake2.js/quake3.js; pinned tree reviewed",
  "fns": [
   ("protocols::quake::client", "get_data_impl", None, CL, "status request / response prefix"),
   ("protocols::quake::client", "get_server_values", None, {}, "backslash variables"),
   ("protocols::quake::client", "get_players", None, CL, "player lines"),
   ("protocols::quake::client", "client_query", None, CL, "response mapping"),
   ("protocols::quake::client", "remove_wrapping_quotes", None, W, "quote stripping"),
   ("protocols::quake::one", "parse_player_string", None, W, "Q1 player line"),
   ("protocols::quake::two", "parse_player_string", None, W, "Q2 player line"),
   ("protocols::quake::three", "parse_player_string", None, W, "Q3 player line"),
   ("protocols::quake::one", "get_response_header", None, W, "Q1 response prefix"),
   ("protocols::quake::two", "get_response_header", None, W, "Q2 response prefix"),
   ("protocols::quake::three", "get_response_header", None, W, "Q3 response prefix"),
   ("protocols::quake::one", "query", None, {}, "Q1 entry"),
   ("protocols::quake::two", "query", None, {}, "Q2 entry"),
   ("protocols::quake::three", "query", None, {}, "Q3 entry"),
  ]},
 "C06": {"provenance": "node-gamedig unreal2.js; pinned tree reviewed",
  "fns": [
   ("protocols::unreal2::protocol", "consume_response_headers", None, {}, "response header"),
   ("protocols::unreal2::protocol", "query_server_info", None, CL, "server info exchange"),
   ("protocols::unreal2::protocol", "query_mutators_and_rules", None, CL, "rules exchange"),
   ("protocols::unreal2::protocol", "query_players", None, CL, "players exchange"),
   ("protocols::unreal2::protocol", "query", "Unreal2Protocol", CL, "section sequencing"),
   ("protocols::unreal2::types", "parse", "ServerInfo", {}, "server info fields"),
   ("protocols::unreal2::types", "parse", "MutatorsAndRules", {}, "mutators and rules"),
   ("protocols::unreal2::types", "parse", "Players", {}, "players / bots"),
   ("protocols::unreal2::protocol", "decode_string", None, W, "length-prefixed Latin-1 / UCS-2 strings with colour stripping"),
   ("protocols::unreal2::protocol", "new", "Unreal2Protocol", {}, "client construction"),
   ("protocols::unreal2::protocol", "query", "", {}, "public entry"),
  ]},
 "C07": {"provenance": "node-gamedig ffow.js / savage2.js / jc2mp.js, Mindustry NetworkIO.java, pinned tree reviewed",
  "fns": [
   ("games::ffow::protocol", "query_with_timeout", None, CL, "FFOW"),
   ("games::savage2::protocol", "query_with_timeout", None, CL, "Savage 2"),
   ("games::jc2m::protocol", "parse_players_and_teams", None, {}, "JC2M player list"),
   ("games::jc2m::protocol", "query_with_timeout", None, CL, "JC2M mapping"),
   ("games::mindustry::protocol", "parse_server_data", None, {}, "Mindustry server data"),
   ("games::mindustry::protocol", "query", None, CL, "Mindustry exchange"),
   ("games::mindustry::types", "try_from", "GameMode", W, "Mindustry game mode"),
   ("games::theship::types", "new_from_valve_player", None, {}, "The Ship player"),
   ("games::theship::types", "new_from_valve_response", None, {}, "The Ship response"),
   ("games::battalion1944", "query", None, CL, "Battalion 1944 overrides"),
   ("games::eco::types", "from", "Response as From", {}, "Eco Root -> Response"),
   ("games::eco::protocol", "query_with_timeout_and_extra_settings", None, CL, "Eco exchange"),
   ("games::eco::protocol", "query", None, {}, "Eco entry"),
   ("games::eco::protocol", "query_with_timeout", None, {}, "Eco entry with timeout"),
   ("games::ffow::protocol", "query", None, {}, "FFOW entry"),
   ("games::jc2m::protocol", "query", None, {}, "JC2M entry"),
   ("games::savage2::protocol", "query", None, {}, "Savage 2 entry"),
   ("games::theship::protocol", "query", None, {}, "The Ship entry"),
   ("games::theship::protocol", "query_with_timeout", None, {}, "The Ship entry with timeout"),
   ("games::mindustry", "query", None, {}, "Mindustry game entry"),
   ("games::mindustry::protocol", "query_with_retries", None, {}, "Mindustry retries"),
  ]},
 "C09": {"provenance": "request layouts of each protocol (Valve wiki, wiki.vg, node-gamedig); pinned tree reviewed after the big-endian port fix",
  "fns": [
   ("protocols::valve::types", "to_bytes", "Packet", W, "A2S request framing"),
   ("protocols::valve::types", "get_default_payload", None, W, "A2S default payloads"),
   ("protocols::valve::protocol", "get_request_data_impl", None, {"calls": True, "writer": True}, "A2S request + challenge echo"),
   ("protocols::valve::protocol", "get_kind_request_data", None, CL, "A2S kind request"),
   ("protocols::gamespy::protocols::one::protocol", "get_server_values_impl", None, {}, "GS1 request"),
   ("protocols::gamespy::protocols::two::protocol", "request_data_impl", None, {}, "GS2 request"),
   ("protocols::gamespy::protocols::three::protocol", "to_bytes", "RequestPacket", W, "GS3 request packet"),
   ("protocols::gamespy::protocols::three::protocol", "make_initial_handshake", None, {"calls": True, "writer": True}, "GS3 handshake + challenge"),
   ("protocols::gamespy::protocols::three::protocol", "send_data_request", None, CL, "GS3 data request"),
   ("protocols::quake::client", "get_data_impl", None, CL, "Quake request"),
   ("protocols::quake::one", "get_send_header", None, W, "Q1 request"),
   ("protocols::quake::two", "get_send_header", None, W, "Q2 request"),
   ("protocols::quake::three", "get_send_header", None, W, "Q3 request"),
   ("protocols::unreal2::protocol", "get_request_data_impl", None, {}, "Unreal 2 request"),
   ("games::minecraft::protocol::java", "send", None, W, "Java framing"),
   ("games::minecraft::protocol::java", "send_handshake", None, W, "Java handshake"),
   ("games::minecraft::protocol::java", "send_status_request", None, W, "Java status request"),
   ("games::minecraft::protocol::java", "send_ping_request", None, W, "Java ping request"),
   ("games::minecraft::protocol::bedrock", "send_status_request", None, W, "Bedrock ping"),
   ("games::minecraft::protocol::legacy_v1_6", "send_initial_request", None, W, "legacy 1.6 ping"),
   ("games::minecraft::protocol::legacy_v1_4", "send_initial_request", None, W, "legacy 1.4 ping"),
   ("games::minecraft::protocol::legacy_vb1_8", "send_initial_request", None, W, "legacy b1.8 ping"),
   ("games::minecraft::types", "as_varint", None, W, "VarInt encoder"),
   ("games::minecraft::types", "as_string", None, W, "string encoder"),
   ("games::mindustry::protocol", "send_ping", None, W, "Mindustry ping"),
   ("games::savage2::protocol", "query_with_timeout", None, CL, "Savage 2 request"),
   ("games::ffow::protocol", "query_with_timeout", None, CL, "FFOW request"),
   ("services::valve_master_server::service", "construct_payload", None, W, "master server request"),
   ("services::valve_master_server::service", "query_specific", None, CL, "master server exchange"),
  ]},
 "C12": {"provenance": "timeout settings plumbing: constructor, getters and defaults must hand each duration to its own role; pinned tree reviewed",
  "fns": [
   ("protocols::types", "new", "TimeoutSettings", {}, "constructor field wiring"),
   ("protocols::types", "get_read", None, W, "read getter"),
   ("protocols::types", "get_write", None, W, "write getter"),
   ("protocols::types", "get_connect", None, W, "connect getter"),
   ("protocols::types", "get_retries", None, W, "retries getter"),
   ("protocols::types", "get_retries_or_default", None, W, "retries or default"),
   ("protocols::types", "get_read_and_write_or_defaults", None, W, "read/write or defaults"),
   ("protocols::types", "get_connect_or_default", None, W, "connect or default"),
   ("protocols::types", "const_default", None, {}, "defaults"),
  ]},
 "C19": {"crate": "gamedig_cli-bin", "provenance": "CLI control flow: which writer each (mode, format) pair reaches with which view of the response, and how main chains lookup, resolution, query and output; pinned tree reviewed",
  "fns": [
   ("", "output_result", None, {"calls": True, "writer": True}, "mode x format dispatch"),
   ("", "main", None, CL, "query pipeline"),
   ("", "find_game", None, W, "game lookup"),
   ("", "resolve_ip_or_domain", None, {"calls": True, "writer": True}, "address resolution"),
   ("", "resolve_domain", None, W, "DNS lookup"),
   ("", "set_hostname_if_missing", None, W, "hostname propagation"),
   ("", "output_result_json", None, W, "json writer"),
   ("", "output_result_json_pretty", None, W, "pretty json writer"),
   ("", "output_result_bson_hex", None, W, "bson hex writer"),
   ("", "output_result_bson_base64", None, W, "bson base64 writer"),
   ("", "output_result_debug", None, W, "debug writer"),
   ("", "output_result_xml", None, W, "xml writer"),
   ("output_result_xml", "json_to_xml", None, W, "json -> xml conversion (element per key, text per scalar)"),
  ]},
 "C17": {"provenance": "the packet reader and codecs are the reference point of every parser; their bodies are pinned after the INV-CURSOR / decoder-contract proofs (C17 D1-D5) and review against the VarInt definition of wiki.vg",
  "fns": [
   ("buffer", "move_cursor", None, W, "cursor move with range check"),
   ("buffer", "read", "Buffer<B>>", W, "fixed-width read"),
   ("buffer", "read_string", None, W, "string read"),
   ("buffer", "switch_endian_chunk", None, W, "endian switch"),
   ("buffer", "remaining_length", None, W, "remaining length"),
   ("buffer", "remaining_bytes", None, W, "remaining bytes"),
   ("buffer", "decode_string", "Utf8Decoder as", W, "UTF-8 delimiter-terminated"),
   ("buffer", "decode_string", "Utf8LengthPrefixedDecoder", W, "UTF-8 length-prefixed"),
   ("buffer", "decode_string", "Utf16Decoder", W, "UTF-16"),
   ("games::minecraft::types", "get_varint", None, W, "VarInt decoder"),
   ("games::minecraft::types", "as_varint", None, W, "VarInt encoder"),
   ("games::minecraft::types", "get_string", None, W, "string decoder"),
   ("games::minecraft::types", "as_string", None, W, "string encoder"),
   ("utils", "u8_lower_upper", None, W, "nibble split"),
   ("utils", "error_by_expected_size", None, W, "declared-length check"),
  ]},
 "C14": {"provenance": "generic dispatcher: per protocol arm the callee and exactly which of (socket_addr built from the definition's default port | raw address, port | definition request settings | caller extra settings | defaults) it passes; pinned tree reviewed against the per-game wrappers",
  "fns": [
   ("games::query", "query", None, CL, "generic entry"),
   ("games::query", "query_with_timeout", None, CL, "generic entry with timeout"),
   ("games::query", "query_with_timeout_and_extra_settings", None, CL, "dispatcher arms"),
  ]},
 "C16": {"provenance": "Valve Developer Wiki 'Master Server Query Protocol' (request layout, filter keys, \\nor\\ / \\nand\\ groups, reply format); rows reviewed",
  "fns": [
   ("services::valve_master_server::types", "to_bytes", "types::Filter>", W, "filter key table"),
   ("services::valve_master_server::types", "bool_as_char_u8", None, W, "bool encoding"),
   ("services::valve_master_server::types", "insert", None, {}, "plain group"),
   ("services::valve_master_server::types", "insert_nand", None, {}, "nand group"),
   ("services::valve_master_server::types", "insert_nor", None, {}, "nor group"),
   ("services::valve_master_server::types", "special_filter_to_bytes", None, W, "group prefix"),
   ("services::valve_master_server::types", "to_bytes", "SearchFilters", W, "filter string"),
   ("services::valve_master_server::service", "construct_payload", None, W, "request layout"),
   ("services::valve_master_server::service", "query_specific", None, CL, "reply page"),
   ("services::valve_master_server::service", "query", "ValveMasterServer", CL, "paging loop"),
   ("services::valve_master_server::service", "query_singular", None, CL, "single page"),
   ("services::valve_master_server::service", "new", "ValveMasterServer", {}, "client construction"),
   ("services::valve_master_server::service", "query", "", {}, "public entry"),
   ("services::valve_master_server::service", "default_master_address", None, {}, "default master address"),
  ]},
}


def resolve(idx, mod, name, ty, crate_prefix="gamedig"):
    pre = crate_prefix + "::" + (mod + "::" if mod else "")
    c = [k for k in idx if k.startswith(pre) and k.endswith("::" + name) and (not ty or ty in k)
         and ("::" not in k[len(pre):-len(name) - 2].replace("::<", "<").split("<")[0] if k[len(pre):-len(name) - 2] and not k[len(pre):].startswith("<") else True)]
    c = [k for k in c if (k[len(pre):] == name) or k[len(pre):].startswith("<")]
    if ty == "":
        c = [k for k in c if k[len(pre):] == name]
    return c


def main(which):
    for prop, tab in TABLES.items():
        if which and prop not in which:
            continue
        cname = tab.get("crate", "gamedig-lib")
        c = facts.load(name=cname)
        idx = TS.fn_index(c)
        cpre = c.name
        out = {"provenance": tab["provenance"], "crate": cname, "functions": {}}
        for mod, fname, ty, opts, table in tab["fns"]:
            cands = resolve(idx, mod, fname, ty, cpre)
            if len(cands) != 1:
                print("!! %s::%s (%s): %d candidates %s" % (mod, fname, ty, len(cands), cands[:5]))
                continue
            name = cands[0]
            f = idx[name]
            ent = dict(opts)
            ent["table"] = table
            ent["rows"] = TS.rows_of(c, f, opts)
            out["functions"][name] = ent
        with open(TS.spec_path(prop), "w") as fh:
            json.dump(out, fh, indent=1)
        print(prop, len(out["functions"]), "functions", sum(len(e["rows"]) for e in out["functions"].values()), "rows")


if __name__ == "__main__":
    main(sys.argv[1:])
