#!/usr/bin/env python3
"""(Re)generates /verif/spec/traces/<PROP>.json from the current tree: one table per unit (gdverif/units.py says which
functions are units of which property). Run by hand only; every changed row must then be reviewed (git diff) before
committing: the tables are the oracle."""
import json, os, sys
sys.path.insert(0, os.path.dirname(os.path.dirname(os.path.abspath(__file__))))
from gdverif import facts, tracespec as TS, sites as S, units as U, sym as SY

OTHER_CONFIGS = ["libdefault", "allfeatures"]
IO_PROPS = ["C02", "C03", "C04", "C05", "C06", "C07", "C16"]


def main(which):
    lib = facts.load(name="gamedig-lib")
    for prop, r in U.RULES.items():
        if which and prop not in which:
            continue
        cname = r.get("crate", "gamedig-lib")
        c = facts.load(name=cname)
        out = {"provenance": r["provenance"], "crate": cname, "functions": {}}
        for p in U.select(c, prop):
            f = c.fn(p)
            out["functions"][S.fn_display(f)] = {"rows": TS.rows_of(c, f, {})}
        if cname == "gamedig-lib":
            # units whose term differs in another feature configuration (cfg-gated arms, capture wrapper) get a table for it
            for cfg in OTHER_CONFIGS:
                c2 = facts.load(cfg, cname)
                for p in U.select(c2, prop):
                    f2 = c2.fn(p)
                    nm = S.fn_display(f2)
                    rows2 = TS.rows_of(c2, f2, {})
                    if nm not in out["functions"]:
                        out["functions"][nm] = {"rows": rows2, "only_in": cfg}
                    elif rows2 != out["functions"][nm]["rows"]:
                        out["functions"][nm]["rows@" + cfg] = rows2
        with open(TS.spec_path(prop), "w") as fh:
            json.dump(out, fh, indent=1)
        print(prop, len(out["functions"]), "functions", sum(len(e["rows"]) for e in out["functions"].values()), "rows")
    if not which or "C09" in which:
        units, g = TS.all_units(lib)
        out = {"provenance": "request layouts of each protocol (Valve wiki, wiki.vg, node-gamedig); pinned tree reviewed after the big-endian port fix. "
                             "Projection of every I/O unit's term onto socket construction, sends and unit calls", "crate": "gamedig-lib", "functions": {}}
        for prop in IO_PROPS:
            for p in U.select(lib, prop):
                if g.reaches(p, SY.IO_PRED):
                    f = lib.fn(p)
                    out["functions"][S.fn_display(f)] = {"project": "requests", "rows": TS.rows_of(lib, f, {"project": "requests"})}
        for cfg in OTHER_CONFIGS:
            c2 = facts.load(cfg, "gamedig-lib")
            u2, g2 = TS.all_units(c2)
            for prop in IO_PROPS:
                for p in U.select(c2, prop):
                    if g2.reaches(p, SY.IO_PRED):
                        f2 = c2.fn(p)
                        nm = S.fn_display(f2)
                        rows2 = TS.rows_of(c2, f2, {"project": "requests"})
                        if nm not in out["functions"]:
                            out["functions"][nm] = {"project": "requests", "rows": rows2, "only_in": cfg}
                        elif rows2 != out["functions"][nm]["rows"]:
                            out["functions"][nm]["rows@" + cfg] = rows2
        with open(TS.spec_path("C09"), "w") as fh:
            json.dump(out, fh, indent=1)
        print("C09", len(out["functions"]), "functions", sum(len(e["rows"]) for e in out["functions"].values()), "rows")


if __name__ == "__main__":
    main(sys.argv[1:])
