"""Query helpers over MIR facts for the call-discipline rules (E6)."""
from .mirlib import Body, callee_key, callee_path
from . import sites as S


def bodies(c, include_external=False):
    for f in c.fns:
        if "mir" not in f or f["kind"] not in ("Fn", "AssocFn", "Closure"):
            continue
        if f["macro"].startswith("X:") and not include_external:
            continue
        yield f


def calls(f, cleanup=False):
    """yield (bb index, term, key) for every call terminator with a known callee"""
    for bi, b in enumerate(f["mir"]["blocks"]):
        if b["cleanup"] and not cleanup:
            continue
        t = b["term"]
        if t and t["k"] == "call" and "fn" in t:
            yield bi, t, callee_key(t["fn"])


def find_calls(c, pred, include_external=False):
    """[(fn, bb, term, key)] for calls whose key/path satisfies pred(key, path)"""
    out = []
    for f in bodies(c, include_external):
        for bi, t, k in calls(f):
            if pred(k, callee_path(t["fn"])):
                out.append((f, bi, t, k))
    return out


def aggregates(f, adt_path=None):
    """yield (bb, stmt, kd, ops) for ADT aggregates (optionally of one ADT)"""
    for bi, b in enumerate(f["mir"]["blocks"]):
        if b["cleanup"]:
            continue
        for s in b["stmts"]:
            if s["k"] == "assign" and s["rv"][0] == "agg" and s["rv"][1].get("k") == "adt":
                kd = s["rv"][1]
                if adt_path is None or kd["path"] == adt_path:
                    yield bi, s, kd, s["rv"][2]


def enum_values(c, adt_path, include_external=False):
    """every construction of a value of enum `adt_path`: (fn, bb, variant name, at)"""
    adt = c.adts.get(adt_path)
    names = [v["name"] for v in adt["variants"]] if adt else []
    short = adt_path.split("gamedig::", 1)[-1]
    out = []
    for f in bodies(c, include_external):
        for bi, s, kd, ops in aggregates(f, adt_path):
            out.append((f, bi, kd["variant"], s.get("at")))
        for pm in f.get("promoted", []):
            for b in pm["blocks"]:
                for s in b["stmts"]:
                    if s["k"] == "assign" and s["rv"][0] == "agg" and s["rv"][1].get("path") == adt_path:
                        out.append((f, -1, s["rv"][1]["variant"], s.get("at")))
                    if s["k"] == "assign":
                        for op in _rv_ops(s["rv"]):
                            if op[0] == "const" and op[1].get("ty", "").endswith(short) and "v" in op[1] and not op[1]["ty"].startswith("&"):
                                v = op[1]["v"]
                                if isinstance(v, int) and 0 <= v < len(names):
                                    out.append((f, -1, names[v], s.get("at")))
        # fieldless variants may also appear as scalar constants
        for bi, b in enumerate(f["mir"]["blocks"]):
            if b["cleanup"]:
                continue
            for op, at in _operands(b):
                if op[0] == "const" and op[1].get("ty", "").endswith(short) and "v" in op[1] and not op[1]["ty"].startswith("&"):
                    v = op[1]["v"]
                    if isinstance(v, int) and 0 <= v < len(names):
                        out.append((f, bi, names[v], at))
    return out


def _operands(b):
    for s in b["stmts"]:
        if s["k"] == "assign":
            for op in _rv_ops(s["rv"]):
                yield op, s.get("at")
    t = b["term"]
    if t:
        if t["k"] == "call":
            for a in t["args"]:
                yield a, t.get("at")
        elif t["k"] == "switch":
            yield t["d"], t.get("at")


def _rv_ops(rv):
    k = rv[0]
    if k in ("use",):
        return [rv[1]]
    if k == "cast":
        return [rv[2]]
    if k == "bin":
        return [rv[2], rv[3]]
    if k == "un":
        return [rv[2]]
    if k == "agg":
        return list(rv[2])
    if k == "repeat":
        return [rv[1]]
    return []


def render(f, op, depth=8, names=False):
    return Body(f).render_operand(op, depth, names)


def disp(f):
    return S.fn_display(f)


def closure_arg_path(f, op):
    """def path of the closure a call operand denotes (through moves / refs), or the fn item path"""
    b = Body(f)
    seen = 0
    while op and seen < 10:
        seen += 1
        if op[0] == "const" and "fn" in op[1]:
            fr = op[1]["fn"]
            return fr.get("res") or fr["raw"]
        if op[0] not in ("copy", "move"):
            return None
        l, proj = op[1]
        if proj:
            return None
        sd = b.single_def(l)
        if not sd:
            # closure locals are often declared once; fall back to the type string
            return None
        rv = sd[2]
        if rv[0] == "agg" and rv[1].get("k") == "closure":
            return rv[1]["path"]
        if rv[0] == "use":
            op = rv[1]
        elif rv[0] == "ref":
            op = ["copy", rv[2]]
        else:
            return None
    return None


def blocks_dominated_by_call(f, pred):
    """set of blocks dominated by the normal successor of a call satisfying pred(key, term)"""
    b = Body(f)
    res = set()
    for bi, t, k in calls(f):
        if pred(k, t) and t["t"] is not None:
            for x in range(len(b.blocks)):
                if b.dominates(t["t"], x):
                    res.add(x)
    return res
