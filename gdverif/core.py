"""Check driver: obligations -> known-finding subtraction -> evidence / replay / interface lines."""
import hashlib, json, os, sys, time

VERIF = os.path.dirname(os.path.dirname(os.path.abspath(__file__)))
KNOWN = os.path.join(VERIF, "known_findings.jsonl")


class Ob:
    """one obligation (rule instance applied to one site / row / path)"""
    __slots__ = ("key", "rule", "ok", "detail", "at", "nontrivial", "kind")

    def __init__(self, key, rule, ok, detail="", at=None, nontrivial=True, kind="violation"):
        self.key = key
        self.rule = rule
        self.ok = ok
        self.detail = detail
        self.at = at
        self.nontrivial = nontrivial
        self.kind = kind

    def j(self):
        return {"key": self.key, "rule": self.rule, "ok": self.ok, "detail": self.detail, "at": self.at}


class Report:
    def __init__(self, prop):
        self.prop = prop
        self.obs = []
        self.analysed = {}      # counters: functions, call sites, rows, ...
        self.decided = []       # clause descriptions decided
        self.not_decided = []   # clause descriptions not decided by this family
        self.trusted = []
        self.assumptions = []
        self.floors = []        # (name, actual, floor)
        self.notes = []
        self._seen = {}

    def add(self, key, rule, ok, detail="", at=None, nontrivial=True):
        # duplicate keys (same rule instance shape at several sites of one function) get an ordinal
        n = self._seen.get(key, 0) + 1
        self._seen[key] = n
        if n > 1:
            key = "%s#%d" % (key, n)
        self.obs.append(Ob(key, rule, ok, detail, at, nontrivial))

    def floor(self, name, actual, minimum):
        self.floors.append((name, actual, minimum))
        if actual < minimum:
            self.add("floor|%s" % name, "FLOOR", False,
                     "anchor-lost: %s matched %d site(s), reviewed floor is %d (a rule matching fewer sites than reviewed cannot pass vacuously)" % (name, actual, minimum))
        else:
            self.add("floor|%s" % name, "FLOOR", True, "%s: %d >= %d" % (name, actual, minimum), nontrivial=False)

    def count(self, name, n):
        self.analysed[name] = self.analysed.get(name, 0) + n


def load_known():
    res = []
    if os.path.exists(KNOWN):
        with open(KNOWN) as fh:
            for line in fh:
                line = line.strip()
                if line.startswith("{"):
                    res.append(json.loads(line))
    return res


def finish(rep, tier, t0, configs=("baseline",), extra=None):
    """subtract known findings, write evidence + replay, print interface lines, return exit code"""
    prop = rep.prop
    seed = int(os.environ.get("VERIF_SEED", "0") or 0)
    known = [k for k in load_known() if k["property"] == prop and k.get("status") == "known"]
    known_keys = {k["key"]: k for k in known}
    violations = []
    known_hit = []
    for o in rep.obs:
        if o.ok:
            continue
        if o.key in known_keys:
            known_hit.append((o, known_keys[o.key]))
        else:
            violations.append(o)
    stale = [k for k in known if k["key"] not in {o.key for o, _ in known_hit}]
    for o, k in known_hit:
        print("KNOWN-FINDING: property=%s %s" % (prop, k["what"]))
    for k in stale:
        sys.stderr.write("note: known finding no longer matches anything (stale): %s\n" % k["key"])
    rdir = os.path.join(os.environ.get("GDVERIF_REPLAY_DIR") or os.path.join(VERIF, "replay"), prop)
    for o in violations:
        os.makedirs(rdir, exist_ok=True)
        h = hashlib.sha256(o.key.encode()).hexdigest()[:16]
        path = os.path.join(rdir, h + ".json")
        with open(path, "w") as fh:
            json.dump({"property": prop, "key": o.key, "rule": o.rule, "detail": o.detail, "at": o.at}, fh, indent=1)
        print("VIOLATION property=%s replay=%s" % (prop, path))
        print("  rule=%s at=%s\n  key=%s\n  %s" % (o.rule, o.at, o.key, o.detail))
    n_ob = len(rep.obs)
    n_ok = sum(1 for o in rep.obs if o.ok)
    distinct_nontrivial = len({o.key for o in rep.obs if o.nontrivial})
    samples = [o.j() for o in rep.obs if o.nontrivial and o.ok][:6] + [o.j() for o in rep.obs if not o.ok][:6]
    if not samples:
        samples = [o.j() for o in rep.obs[:3]]
    rules = {}
    for o in rep.obs:
        r = rules.setdefault(o.rule, [0, 0])
        r[0] += 1
        r[1] += 1 if o.ok else 0
    cov = {
        "explanation": ("Static analysis of /repo's current sources (rustc MIR + typed HIR facts extracted by the gdfacts driver; "
                        "no code is executed). Decided clauses: " + " | ".join(rep.decided) +
                        " || NOT decided by this family: " + " | ".join(rep.not_decided)),
        "obligations": n_ob,
        "discharged": n_ok + len(known_hit),
        "evaluations": n_ob,
        "distinct_nontrivial": distinct_nontrivial,
        "rule": "one obligation per (rule instance, site/row); non-trivial = discharged by an argument other than a constant/floor check; distinct by site key",
        "samples": samples,
        "checker_cmd": "./check %s --tier %s" % (prop, tier),
        "trusted_base": rep.trusted or ["rustc nightly MIR/HIR + Instance::try_resolve", "gdfacts is a faithful dump",
                                        "std/dependency functions outside the may-panic table are total"],
        "analysed": rep.analysed,
        "per_rule": {k: {"instances": v[0], "passed": v[1]} for k, v in sorted(rules.items())},
        "floors": [{"name": n, "actual": a, "floor": f} for n, a, f in rep.floors],
        "feature_configs": list(configs),
        "known_findings_printed": [k["key"] for _, k in known_hit],
        "stale_known_findings": [k["key"] for k in stale],
        "notes": rep.notes,
        "exhaustive": True,
    }
    if extra:
        cov.update(extra)
    ev = {
        "property_id": prop, "tier": tier, "seed": seed, "level": "other",
        "coverage": cov,
        "assumptions": rep.assumptions or ["64-bit usize", "no stack exhaustion", "the OS honours socket timeouts"],
        "wall_s": round(time.time() - t0, 2),
        "violations": len(violations),
    }
    evdir = os.environ.get("GDVERIF_EVIDENCE_DIR") or os.path.join(VERIF, "evidence")
    os.makedirs(evdir, exist_ok=True)
    with open(os.path.join(evdir, prop + ".json"), "w") as fh:
        json.dump(ev, fh, indent=1, default=str)
    print("%s tier=%s obligations=%d passed=%d known=%d violations=%d wall=%.1fs" % (
        prop, tier, n_ob, n_ok, len(known_hit), len(violations), time.time() - t0))
    return 1 if violations else 0
