"""Resolved call graph over a crate's local bodies (direct calls, closures, trait dispatch closed over impls)."""
from .mirlib import callee_key


class CallGraph:
    def __init__(self, crate):
        self.crate = crate
        self.edges = {}      # caller path -> list of (callee path, bb, term)
        self.trait_impls = {}  # trait method path -> [impl method paths]
        for im in crate.impls:
            tr = im.get("trait")
            if not tr:
                continue
            for name, p in im["items"].items():
                self.trait_impls.setdefault("%s::%s" % (tr, name), []).append(p)
        for f in crate.fns:
            if "mir" not in f:
                continue
            out = []
            for bi, b in enumerate(f["mir"]["blocks"]):
                if b["cleanup"]:
                    continue
                for s in b["stmts"]:
                    if s["k"] == "assign" and s["rv"][0] == "agg" and s["rv"][1].get("k") == "closure":
                        out.append((s["rv"][1]["path"], bi, None))
                    # function items passed as values (e.g. map_or_else(String::new, Clone::clone))
                    if s["k"] == "assign":
                        self._fn_consts(s["rv"], bi, out)
                t = b["term"]
                if t and t["k"] == "call":
                    if "fn" in t:
                        fn = t["fn"]
                        p = fn.get("res") or fn["raw"]
                        out.append((p, bi, t))
                        if fn.get("res") is None or fn.get("ikind") == "virtual":
                            for ip in self.trait_impls.get(fn["raw"], []):
                                out.append((ip, bi, t))
                    for a in t["args"]:
                        if a[0] == "const" and "fn" in a[1]:
                            fr = a[1]["fn"]
                            out.append((fr.get("res") or fr["raw"], bi, None))
                            if fr.get("res") is None:
                                for ip in self.trait_impls.get(fr["raw"], []):
                                    out.append((ip, bi, None))
            self.edges[f["path"]] = out
        self._reach_cache = {}

    def _fn_consts(self, rv, bi, out):
        def walk(x):
            if isinstance(x, list):
                if len(x) == 2 and x[0] == "const" and isinstance(x[1], dict) and "fn" in x[1]:
                    fr = x[1]["fn"]
                    out.append((fr.get("res") or fr["raw"], bi, None))
                else:
                    for y in x:
                        walk(y)
        walk(rv)

    def callees(self, path):
        return self.edges.get(path, [])

    def reaches(self, path, pred, _stack=None):
        """does `path` (transitively) call a function p with pred(p)?"""
        key = (path, id(pred))
        if key in self._reach_cache:
            return self._reach_cache[key]
        seen = set()
        st = [path]
        found = False
        while st and not found:
            x = st.pop()
            if x in seen:
                continue
            seen.add(x)
            if x != path and pred(x):
                found = True
                break
            for (c, _, _) in self.edges.get(x, []):
                if pred(c):
                    found = True
                    break
                if c in self.edges and c not in seen:
                    st.append(c)
        self._reach_cache[key] = found
        return found

    def reachable_from(self, roots):
        seen = set()
        st = list(roots)
        while st:
            x = st.pop()
            if x in seen:
                continue
            seen.add(x)
            for (c, _, _) in self.edges.get(x, []):
                if c in self.edges and c not in seen:
                    st.append(c)
        return seen

    def callers_of(self, pred):
        """[(caller path, bb, term)] of calls whose callee satisfies pred"""
        res = []
        for p, outs in self.edges.items():
            for (c, bi, t) in outs:
                if pred(c):
                    res.append((p, bi, t, c))
        return res

    def sccs(self):
        """non-trivial strongly connected components (recursion)"""
        index = {}
        low = {}
        onstack = set()
        stack = []
        res = []
        counter = [0]
        import sys
        sys.setrecursionlimit(10000)

        def strong(v):
            index[v] = low[v] = counter[0]
            counter[0] += 1
            stack.append(v)
            onstack.add(v)
            for (w, _, _) in self.edges.get(v, []):
                if w not in self.edges:
                    continue
                if w not in index:
                    strong(w)
                    low[v] = min(low[v], low[w])
                elif w in onstack:
                    low[v] = min(low[v], index[w])
            if low[v] == index[v]:
                comp = []
                while True:
                    w = stack.pop()
                    onstack.discard(w)
                    comp.append(w)
                    if w == v:
                        break
                if len(comp) > 1 or any(w == v for (w, _, _) in self.edges.get(v, [])):
                    res.append(comp)
        for v in list(self.edges):
            if v not in index:
                strong(v)
        return res


def is_socket_receive(p):
    return p.endswith("::receive") and ("socket::" in p or "capture::socket" in p) and "tests" not in p


def is_socket_send(p):
    return p.endswith("::send") and ("socket::" in p or "capture::socket" in p) and "tests" not in p
