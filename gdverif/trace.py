"""E4/E5: extraction of the wire-level 'trace' of a function from its typed HIR: the ordered list of buffer reads
(with resolved type / byte order / decoder), key lookups, index lookups, sub-parser calls and sends, each with
its destination (struct field the value ends up in), the conversions on the way, and the conditions / loops it
sits under. Local variable names are canonicalised away, so renames, reformatting and reordering of unrelated
statements do not change a trace; a changed width, order, endianness, key, mask, condition or destination does."""
import re
from . import hirlib as H

BUF = "gamedig::buffer::{impl#0}::"
BUF_SW = "gamedig::buffer::{impl#3}::switch_endian_chunk"


def _short_ty(t):
    t = re.sub(r"\b(?:std|core|alloc|byteorder|gamedig)::(?:[a-z_0-9]+::)*", "", t)
    t = re.sub(r"'[a-z_]+,? ?", "", t)
    return t.replace("buffer::", "").replace("<>", "")


def _endian(node):
    """byte order of the Buffer a method is called on (from the receiver's type)"""
    recv = node[2]
    ty = recv[1].get("aty") or recv[1].get("ty") or ""
    ga = node[1].get("inst_gargs") or node[1].get("gargs") or []
    for x in [ty] + list(ga):
        if "LittleEndian" in x:
            return "LE"
        if "BigEndian" in x:
            return "BE"
    m = re.search(r"Buffer<'?_?,? ?(\w+)>", ty)
    return m.group(1) if m else "?"


def classify(node):
    """-> op string if this node is an interesting wire/mapping operation, else None"""
    k = node[0]
    if k == "mcall" or k == "call":
        fn = H.declared_callee(node) or ""
        inst = node[1].get("inst") or fn
        ga = node[1].get("gargs") or []
        args = H.call_args(node)
        if fn == BUF + "read":
            t = _short_ty(ga[-1]) if ga else "?"
            e = _endian(node) if t not in ("u8", "i8") else ""
            return "read<%s%s>" % (t, "," + e if e else "")
        if fn == BUF + "read_string":
            d = _short_ty(ga[-1]) if ga else "?"
            until = H.show(args[1]) if len(args) > 1 else ""
            until = until.replace("core::option::Option::", "")
            return "read_string<%s>(%s)" % (d, until)
        if fn == BUF + "move_cursor":
            return "move_cursor(%s)" % (H.show(args[1]) if len(args) > 1 else "")
        if fn == BUF + "remaining_bytes":
            return "remaining_bytes"
        if fn == BUF_SW:
            return "switch_endian_chunk(%s)" % (H.show(args[1]) if len(args) > 1 else "")
        if fn == BUF + "new":
            ty = _short_ty(node[1].get("ty", ""))
            return "Buffer::new:%s" % ty
        last = fn.split("::")[-1]
        if "collections::hash::map" in fn and last in ("remove", "get", "contains_key", "get_mut") and len(args) > 1:
            key = H.lit(args[1])
            if isinstance(key, str):
                return "%s.%s(%r)" % (_canon_recv(args[0]), last, key)
            return "%s.%s(<dyn>)" % (_canon_recv(args[0]), last)
        if "collections::hash::map" in fn and last == "insert" and len(args) > 2:
            return "%s.insert" % _canon_recv(args[0])
        if fn.endswith("utils::error_by_expected_size"):
            return "expect_size(%s, %s)" % (H.show(args[0]), H.show(args[1]))
        if fn == "gamedig::socket::Socket::send" or inst.endswith("::send") and "socket::" in inst:
            return "send(%s)" % H.show(args[1]) if len(args) > 1 else "send()"
        if fn == "gamedig::socket::Socket::receive" or inst.endswith("::receive") and "socket::" in inst:
            return "receive(%s)" % (H.show(args[1]).replace("core::option::Option::", "") if len(args) > 1 else "")
        if fn.startswith("serde_json::value::") and last.startswith(("as_", "is_")):
            return None  # handled as via
        # local sub-parsers: a local function that takes the buffer
        if fn.startswith("gamedig::") and any("Buffer<" in (a[1].get("ty", "") + a[1].get("aty", "")) for a in args) and not fn.startswith("gamedig::buffer::"):
            name = inst.split("gamedig::")[-1]
            ga2 = [_short_ty(x) for x in (node[1].get("inst_gargs") or ga) if not x.startswith("'")]
            return "parse %s%s" % (name, "<" + ",".join(ga2) + ">" if ga2 else "")
        return None
    if k == "index":
        idx = H.lit(node[3])
        if isinstance(idx, (str, int)) and not isinstance(idx, bool):
            base = node[2]
            # chains value["a"]["b"] are reported once, at the outermost index
            return "index[%r]" % (idx,)
        return None
    return None


def _canon_recv(n):
    fp = H.field_path(n)
    if fp:
        return ".".join(fp)
    return H.show(H.strip(n))


VIA_M = {"into", "try_into", "to_string", "to_owned", "as_str", "as_ref", "clone", "ok", "ok_or", "ok_or_else", "map_err", "parse",
         "unwrap_or", "unwrap_or_default", "or_else", "map", "and_then", "as_u64", "as_i64", "as_str", "as_bool", "as_array",
         "is_null", "to_lowercase", "trim", "filter", "copied", "cloned", "is_some", "is_none", "is_ok", "is_err", "then", "flatten"}


def _via_of(anc, child):
    """descriptor of wrapper `anc` around `child` (None = transparent)"""
    k = anc[0]
    if k == "match" and anc[1].get("src") == "try":
        return "?"
    if k == "call" and anc[1].get("fn", "").endswith("Try::branch"):
        return None
    if k == "cast":
        return "as " + _short_ty(anc[1].get("ty", "?"))
    if k == "bin":
        other = anc[3] if anc[2] is child else anc[2]
        side = "" if anc[2] is child else "rhs-of "
        return "%s%s %s" % (side, anc[1].get("op"), H.show(other))
    if k == "un":
        return str(anc[1].get("op"))
    if k in ("ref", "block", "stmt"):
        return None
    if k == "call":
        ctor = anc[1].get("ctor")
        if ctor:
            return ctor.split("::")[-1]
        fn = anc[1].get("inst") or anc[1].get("fn") or ""
        if fn:
            nm = fn.split("gamedig::")[-1].split("::")[-1]
            if nm in ("write_box_via_move", "new_uninit"):
                return None
            if nm in ("box_assume_init_into_vec_unsafe", "into_vec"):
                return "vec!"
            return nm + "()"
        return "call"
    if k == "mcall":
        nm = anc[1]["name"]
        args = anc[3:]
        if anc[2] is child:
            if nm == "parse":
                ga = anc[1].get("gargs") or []
                return "parse<%s>" % (_short_ty(ga[-1]) if ga else "?")
            extra = ""
            if nm in ("unwrap_or", "ok_or") and args:
                extra = H.show(args[0]).replace("core::option::Option::", "")
            return ".%s(%s)" % (nm, extra)
        return "arg-of .%s" % nm
    if k == "index":
        if anc[2] is child:
            idx = H.lit(anc[3])
            return "[%r]" % (idx,) if idx is not None else "[..]"
        return "as-index"
    if k == "ret":
        return "return"
    if k == "tup":
        return "tuple#%d" % [i for i, x in enumerate(anc[2:]) if x is child][0]
    if k == "array":
        return "array-elem"
    if k == "closure":
        return "closure"
    return k


def _has_op(n, calls):
    for x, _ in H.walk(n):
        if classify(x) is not None or (calls and _local_call(x)):
            return True
    return False


def _local_call(node):
    if node[0] not in ("call", "mcall"):
        return None
    fn = node[1].get("inst") or H.declared_callee(node) or ""
    decl = H.declared_callee(node) or ""
    if decl.startswith("gamedig::socket::Socket::"):
        fn = decl  # the socket type is a feature-dependent alias (plain or capturing wrapper): name the trait method
    local_pre = (_CRATE[0].name + "::") if _CRATE[0] is not None else "gamedig::"
    if not (fn.startswith("gamedig::") or fn.startswith(local_pre)) or fn.startswith(("gamedig::buffer::", "gamedig::errors::")) or node[1].get("ctor"):
        return None
    if fn.endswith(("::context", "::into", "::from")):
        return None
    ga = [_short_ty(x) for x in (node[1].get("inst_gargs") or []) if not x.startswith("'")]
    if decl.startswith("gamedig::socket::Socket::"):
        ga = []
    return "call %s%s" % (fn.split("gamedig::")[-1] if fn.startswith("gamedig::") else fn, "<" + ",".join(ga) + ">" if ga else "")


def extract(f, calls=False, rename=True):
    """-> list of rows {op, via, dest, ctx} for function f (typed HIR)"""
    body = H.body_of(f)
    if body is None:
        return []
    rows = []
    binds = {}     # local name -> row index that defines it (let x = <op chain>)
    for node, parents in H.walk(body):
        op = classify(node)
        if op is None and calls:
            op = _local_call(node)
            if op is not None:
                op += "(" + ", ".join(H.show(a) for a in H.call_args(node)) + ")"
        if op is None and node[0] == "fld" and parents and parents[-1][0] == "struct" and not _has_op(node[2], calls):
            # struct field initialised without any wire operation: record what it is initialised from
            e = H.strip(node[2])
            op = "init " + H.show(e).replace("core::option::Option::", "")
            node = node[2]
            parents = parents + (parents[-1][[i for i, x in enumerate(parents[-1]) if x is not None and isinstance(x, list) and len(x) > 2 and x[2] is node][0]],) if False else parents
            st_node = parents[-1]
            nm = (st_node[1].get("adt") or st_node[1].get("text", "?")).split("::")[-1]
            if st_node[1].get("variant"):
                nm += ":" + st_node[1]["variant"]
            fname = [x for x in st_node[2:] if x[0] == "fld" and x[2] is node][0][1]["name"]
            ctx0 = _ctx_of(parents)
            rows.append({"op": op, "via": [], "dest": ("fld", fname, nm), "ctx": ctx0, "at": node[1].get("at")})
            continue
        if op is None:
            continue
        # index chains: only the outermost index of a chain is reported
        if node[0] == "index" and parents and parents[-1][0] == "index" and parents[-1][2] is node:
            continue
        if node[0] == "index":
            chain = []
            n = node
            while n[0] == "index":
                chain.append(H.lit(n[3]))
                n = H.strip(n[2])
            op = "%s%s" % (_canon_recv(n), "".join("[%r]" % (x,) for x in reversed(chain)))
        via = []
        dest = None
        ctx = []
        child = node
        stop = False
        for anc in reversed(parents):
            k = anc[0]
            if not stop:
                if k == "fld":
                    dest = ("fld", anc[1]["name"], None)
                    stop = True
                elif k == "let":
                    pat = anc[2]
                    if pat[0] == "pbind":
                        dest = ("let", pat[1]["name"], None)
                    else:
                        dest = ("letpat", H.show_pat(pat), None)
                    stop = True
                elif k == "assign" and anc[3] is child:
                    dest = ("assign", H.show(anc[2]), None)
                    stop = True
                elif k == "assignop" and anc[3] is child:
                    dest = ("assign", H.show(anc[2]) + " " + str(anc[1].get("op")), None)
                    stop = True
                elif k == "struct":
                    pass
                elif k == "if" and anc[2] is child:
                    via.append("if-cond")
                    stop = True
                elif k == "match" and anc[1].get("src") != "try" and anc[2] is child:
                    via.append("match-scrutinee")
                    stop = True
                elif k == "arm":
                    pass
                elif k == "match" and anc[1].get("src") == "normal" and anc[2] is not child:
                    pass
                elif k == "if" and anc[2] is not child:
                    pass
                elif (k == "block" and child is not anc[-1]) or k == "loop":
                    stop = True
                elif k == "stmt":
                    stop = True
                elif k == "closure":
                    via.append("closure")
                    stop = True
                else:
                    v = _via_of(anc, child)
                    if v:
                        via.append(v)
            # struct literal owning the field
            if k == "struct" and dest and dest[0] == "fld" and dest[2] is None:
                nm = (anc[1].get("adt") or anc[1].get("text", "?")).split("::")[-1]
                if anc[1].get("variant"):
                    nm += ":" + anc[1]["variant"]
                dest = ("fld", dest[1], nm)
            # context
            if k == "if":
                if anc[2] is not child:
                    which = "if" if (len(anc) > 3 and anc[3] is child) else "else"
                    ctx.append("%s(%s)" % (which, H.show(anc[2])))
            elif k == "arm":
                pass
            elif k == "match" and anc[1].get("src") not in ("try",):
                if anc[2] is not child:
                    arm = child
                    if anc[1].get("src") == "for":
                        sc = H.show(anc[2])
                        if sc.startswith("into_iter("):
                            ctx.append("for(%s)" % sc[len("into_iter("):-1])
                    else:
                        guard = " if " + H.show(arm[3]) if arm[1].get("guard") else ""
                        ctx.append("match(%s)=>%s%s" % (H.show(anc[2]), H.show_pat(arm[2]), guard))
            elif k == "loop":
                src = anc[1].get("src")
                if src != "ForLoop":
                    ctx.append("loop:%s" % src)
            elif k == "closure":
                ctx.append("closure")
            child = anc
        ctx.reverse()
        # `for` desugaring produces match(into_iter(..))=>iter, loop, match(next(&iter))=>Some(x): fold to one entry
        ctx = _fold_for(ctx)
        rows.append({"op": op, "via": via, "dest": dest, "ctx": ctx, "at": node[1].get("at")})
        # a lookup that is only the scrutinee/condition of a value-producing match/if whose arms hold no further
        # wire operation: the arms ARE the decoding rule (e.g. reported-vs-listed player count) - record them
        if via and via[-1] in ("match-scrutinee", "if-cond"):
            chain = list(parents) + [node]
            m = None
            for i in range(len(chain) - 1, 0, -1):
                anc, ch = chain[i - 1], chain[i]
                if (anc[0] == "match" and anc[1].get("src") == "normal" and anc[2] is ch) or (anc[0] == "if" and anc[2] is ch):
                    m = (i - 1, anc)
                    break
            if m is not None:
                mi, mnode = m
                arms = mnode[3:]
                if not any(_has_op(a_, calls) for a_ in arms):
                    d2 = None
                    top = mnode
                    for j in range(mi - 1, -1, -1):
                        anc = chain[j]
                        k2 = anc[0]
                        if k2 == "fld":
                            stn = chain[j - 1] if j > 0 else None
                            nm2 = "?"
                            if stn is not None and stn[0] == "struct":
                                nm2 = (stn[1].get("adt") or stn[1].get("text", "?")).split("::")[-1]
                            d2 = ("fld", anc[1]["name"], nm2)
                            break
                        if k2 == "let":
                            pat = anc[2]
                            d2 = ("let", pat[1]["name"], None) if pat[0] == "pbind" else ("letpat", H.show_pat(pat), None)
                            break
                        if k2 in ("stmt", "arm", "loop", "closure") or (k2 == "block" and chain[j + 1] is not anc[-1]):
                            break
                        top = anc if k2 in ("cast", "call", "mcall", "un", "bin") else top
                    if d2 is not None:
                        rows.append({"op": "derive " + H.show(top).replace("core::option::Option::", ""), "via": [], "dest": d2,
                                     "ctx": ctx, "at": mnode[1].get("at")})
                        if d2[0] == "let":
                            binds.setdefault(d2[1], len(rows) - 1)
        if dest and dest[0] == "let":
            binds[dest[1]] = len(rows) - 1
    # let-bound locals without a wire op that feed an op row / struct field: record what they are bound to
    lets = []
    for n, parents in H.walk(body):
        if n[0] == "let" and len(n) > 3:
            names_ = [x[1]["name"] for x, _ in H.walk(n[2]) if x[0] == "pbind"]
            lets.append((n, parents, names_))
        elif n[0] == "assign":
            ln_ = H.local_name(n[2])
            if ln_:
                lets.append((n, parents, [ln_]))
    uses0 = _direct_field_uses(body)
    emitted = set()
    for _round in range(3):
        text = " ".join([r["op"] + " " + " ".join(r["ctx"]) + " " + " ".join(r["via"]) for r in rows])
        idents = set(re.findall(r"[A-Za-z_][A-Za-z_0-9]*", text)) | set(uses0)
        added = False
        for (n, parents, names_) in lets:
            if id(n) in emitted or not any(x in idents for x in names_):
                continue
            if n[0] == "let" and any(x in binds for x in names_):
                continue
            init = n[3]
            if _has_op(init, calls) and n[0] == "let":
                continue
            emitted.add(id(n))
            added = True
            lhs = H.show_pat(n[2]) if n[0] == "let" else H.show(n[2])
            rows.append({"op": "%s %s = %s" % ("bind" if n[0] == "let" else "set", lhs, H.show(H.strip(init)).replace("core::option::Option::", "")),
                         "via": [], "dest": None, "ctx": _ctx_of(parents + (n,))[:-0 or None], "at": n[1].get("at")})
        if not added:
            break
    # resolve let-bound locals to struct fields they initialise directly
    uses = _direct_field_uses(body)
    # alpha-renaming: every binding (parameters, pattern bindings in match arms / closures / for loops) gets a canonical
    # name by order of introduction, so renaming a variable never changes a trace
    names = {}
    for i, pp in enumerate(f["hir"].get("params", []) if rename else []):
        for x, _ in H.walk(pp):
            if x[0] == "pbind" and x[1]["name"] != "self":
                names.setdefault(x[1]["name"], "a%d" % i)
    k_ = 0
    for x, _ in (H.walk(body) if rename else []):
        if x[0] == "pbind" and x[1]["name"] != "self" and x[1]["name"] not in names:
            names[x[1]["name"]] = "b%d" % k_
            k_ += 1
    for name, ri in binds.items():
        tgt = uses.get(name)
        names[name] = tgt if tgt else "v%d" % ri
    out = []
    for r in rows:
        d = r["dest"]
        if d is None:
            ds = "-"
        elif d[0] == "fld":
            ds = "%s.%s" % (d[2] or "?", d[1])
        elif d[0] == "let":
            ds = names[d[1]] if not names[d[1]].startswith("v") else "let " + names[d[1]]
        elif d[0] == "assign":
            ds = "assign " + _ren(d[1], names)
        else:
            ds = "let " + _ren(d[1], names)
        out.append({"op": _ren(r["op"], names), "via": [_ren(v, names) for v in r["via"]], "dest": ds,
                    "ctx": [_ren(c, names) for c in r["ctx"]], "at": r["at"]})
    return out


def _ctx_of(parents):
    ctx = []
    child = None
    chain = list(parents)
    for i in range(len(chain) - 1, -1, -1):
        anc = chain[i]
        child = chain[i + 1] if i + 1 < len(chain) else None
        k = anc[0]
        if child is None:
            continue
        if k == "if" and anc[2] is not child:
            which = "if" if (len(anc) > 3 and anc[3] is child) else "else"
            ctx.append("%s(%s)" % (which, H.show(anc[2])))
        elif k == "match" and anc[1].get("src") not in ("try",) and anc[2] is not child:
            if anc[1].get("src") == "for":
                sc = H.show(anc[2])
                if sc.startswith("into_iter("):
                    ctx.append("for(%s)" % sc[len("into_iter("):-1])
            else:
                guard = " if " + H.show(child[3]) if child[1].get("guard") else ""
                ctx.append("match(%s)=>%s%s" % (H.show(anc[2]), H.show_pat(child[2]), guard))
        elif k == "loop" and anc[1].get("src") != "ForLoop":
            ctx.append("loop:%s" % anc[1].get("src"))
        elif k == "closure":
            ctx.append("closure")
    ctx.reverse()
    return ctx


def _fold_for(ctx):
    out = []
    i = 0
    while i < len(ctx):
        c = ctx[i]
        if c.startswith("for(") and i + 1 < len(ctx) and ctx[i + 1].startswith("match(next("):
            out.append(c)
            i += 2
            continue
        if c.startswith("match(into_iter(") and c.endswith("=>iter"):
            it = c[len("match(into_iter("):-len(")=>iter")]
            j = i + 1
            if j < len(ctx) and ctx[j].startswith("match(next("):
                pat = ctx[j].split("=>", 1)[1]
                out.append("for %s in %s" % (pat.replace("core::option::Option::Some", "").strip("()").replace("0: ", ""), it))
                i = j + 1
                continue
        out.append(c)
        i += 1
    return out


def _ren(s, names):
    if not names:
        return s

    def rep(m):
        w = m.group(0)
        return names.get(w, w)
    return re.sub(r"(?<![\w'.:])[A-Za-z_][A-Za-z_0-9]*(?![\w'(:])", rep, s)


def _direct_field_uses(body):
    """local name -> 'Struct.field' when a struct literal field is initialised directly from the local"""
    res = {}
    for n, parents in H.walk(body):
        if n[0] == "struct":
            nm = (n[1].get("adt") or n[1].get("text", "?")).split("::")[-1]
            if n[1].get("variant"):
                nm += ":" + n[1]["variant"]
            for fld in n[2:]:
                if fld[0] != "fld":
                    continue
                e = H.strip(fld[2])
                ln = H.local_name(e)
                if ln and ln not in res:
                    res[ln] = "%s.%s" % (nm, fld[1]["name"])
    return res


_CRATE = [None]


def set_crate(c):
    _CRATE[0] = c


def _stable_paths(s):
    """replace `mod::{impl#N}::name` (N shifts when impl blocks are added) by `mod::<SelfTy>::name`"""
    c = _CRATE[0]
    if c is None or "{impl#" not in s:
        return s
    from . import sites as S_

    def rep(m):
        p = m.group(0)
        parts = p.split("::")
        for i in range(len(parts), 1, -1):
            f2 = c.fn(c.name + "::" + "::".join(parts[:i])) or c.fn("::".join(parts[:i]))
            if f2 is not None:
                d = S_.fn_display(f2).split(c.name + "::", 1)[-1]
                if "{impl#" not in d:
                    return d + ("::" + "::".join(parts[i:]) if parts[i:] else "")
        return re.sub(r"\{impl#\d+\}", "{impl}", p)
    return re.sub(r"[A-Za-z_0-9:]*\{impl#\d+\}(?:::[A-Za-z_0-9]+)*", rep, s)


def fmt(row):
    return _stable_paths("%s | %s%s -> %s" % (" & ".join(row["ctx"]) or "-", row["op"], (" via " + " ".join(row["via"])) if row["via"] else "", row["dest"]))


def trace_strings(f, calls=False):
    return [fmt(r) for r in extract(f, calls)]
