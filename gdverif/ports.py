"""Port / address provenance for public (address, port) entry points (shared by C09 and C14)."""
import re
from . import mirq as Q
from .mirlib import Body, callee_key


def _resolve_port_helper(c, f, b, op, p, rp):
    """`helper(port)` where helper is a local fn returning port.unwrap_or(K) -> rendered as the inlined unwrap_or"""
    m = re.match(r"^([A-Za-z_0-9:]+)\(arg%d\)$" % p, rp)
    if not m:
        return rp
    l = op[1][0] if op[0] in ("copy", "move") else None
    sd = b.single_def(l) if l is not None else None
    if not sd or sd[2][0] != "call" or "fn" not in sd[2][1]:
        return rp
    fr = sd[2][1]["fn"]
    g = c.fn(fr.get("res") or fr["raw"])
    if g is None or "mir" not in g:
        return rp
    gb = Body(g)
    for bi, t, k in Q.calls(g):
        if k.startswith("Option::unwrap_or"):
            r = gb.render_operand(t["args"][1], 3, names=False)
            a0 = gb.render_operand(t["args"][0], 3, names=False)
            if a0 == "arg1" and gb.blocks[t["t"]]["term"]["k"] in ("ret", "goto") and t["dest"][0] == 0:
                return "Option::unwrap_or(arg%d, %s)" % (p, r)
    return rp


def entry_points(c):
    """exported functions with an &IpAddr and an Option<u16> parameter -> list of dicts"""
    out = []
    for f in Q.bodies(c):
        if not f.get("exported") or f["kind"] != "Fn" and f["kind"] != "AssocFn":
            continue
        b = Body(f)
        tys = [b.locals[i]["ty"] for i in range(1, b.argc + 1)]
        ai = [i + 1 for i, t in enumerate(tys) if t in ("&std::net::IpAddr", "&core::net::IpAddr")]
        pi = [i + 1 for i, t in enumerate(tys) if t in ("std::option::Option<u16>", "core::option::Option<u16>")]
        if not ai or not pi:
            continue
        a, p = ai[0], pi[0]
        ent = {"fn": f, "addr_arg": a, "port_arg": p, "kind": None, "default": None, "detail": "", "target": None, "targets": []}
        news = [(bi, t) for bi, t, k in Q.calls(f) if k.startswith("SocketAddr::new")]
        for bi, t in news:
            ra = b.render_operand(t["args"][0], 5, names=False)
            rp = b.render_operand(t["args"][1], 6, names=False)
            rp = _resolve_port_helper(c, f, b, t["args"][1], p, rp)
            m = re.match(r"^Option::unwrap_or\(arg%d, (\d+)u16\)$" % p, rp)
            m2 = re.match(r"^Option::unwrap_or\(arg%d, (.+)\)$" % p, rp)
            if ra == "*arg%d" % a and m:
                ent["kind"], ent["default"] = "constructs", int(m.group(1))
                ent["detail"] = "SocketAddr::new(*address, port.unwrap_or(%s))" % m.group(1)
            elif ra == "*arg%d" % a and m2:
                ent["kind"], ent["default"] = "constructs", m2.group(1)
                ent["detail"] = "SocketAddr::new(*address, port.unwrap_or(%s))" % m2.group(1)
            else:
                ent["kind"] = "bad"
                ent["detail"] = "SocketAddr::new(%s, %s)" % (ra, rp)
        if ent["kind"] is None:
            # forwarding: a call to a local function receiving both parameters unchanged
            for bi, t, k in Q.calls(f):
                if not t["fn"].get("local"):
                    continue
                rs = [b.render_operand(x, 3, names=False) for x in t["args"]]
                rs = [re.sub(r"^&?\*?(arg\d+)$", r"\1", x) for x in rs]
                if "arg%d" % a in rs and "arg%d" % p in rs:
                    ent["targets"].append(t["fn"].get("res") or t["fn"]["raw"])
                    if ent["kind"] is None:
                        ent["kind"] = "forwards"
                        ent["target"] = t["fn"].get("res") or t["fn"]["raw"]
                        ent["detail"] = "forwards (address, port) unchanged to %s" % k
                    continue
                # port resolved through a helper (port_or_java_default(port)) and address forwarded
                if "arg%d" % a in rs and any(("arg%d" % p) in x for x in rs):
                    ent["kind"] = "forwards-via"
                    ent["target"] = t["fn"].get("res") or t["fn"]["raw"]
                    ent["detail"] = "forwards address and %s to %s" % ([x for x in rs if ("arg%d" % p) in x][0], k)
                    break
        if ent["kind"] is None:
            ent["kind"] = "unknown"
            ent["detail"] = "neither constructs SocketAddr::new(*address, port.unwrap_or(K)) nor forwards (address, port)"
        # the constructed address must reach the callee unchanged: first argument of a later local/protocol call
        if ent["kind"] == "constructs":
            ok = False
            for bi, t, k in Q.calls(f):
                if k.startswith("SocketAddr::new"):
                    continue
                for x in t["args"]:
                    r = b.render_operand(x, 8, names=False)
                    if r.startswith("&SocketAddr::new(*arg%d" % a) or r.startswith("SocketAddr::new(*arg%d" % a):
                        ok = True
                        ent["target"] = t["fn"].get("res") or t["fn"]["raw"]
            if not ok:
                ent["kind"] = "bad"
                ent["detail"] += " but the constructed address is not what is passed on"
        out.append(ent)
    return out
