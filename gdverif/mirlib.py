"""Helpers over the MIR facts: CFG, dominators, loops, def chains, canonical rendering, callee keys."""
import re
from functools import lru_cache


def strip_generics(s):
    """remove balanced ::<...> turbofish groups and {closure@..} descriptors"""
    s = re.sub(r"\{closure@[^}]*\}", "{closure}", s)
    out = []
    i = 0
    n = len(s)
    while i < n:
        if s.startswith("::<", i):
            depth = 0
            j = i + 2
            while j < n:
                if s[j] == "<":
                    depth += 1
                elif s[j] == ">" and s[j - 1] != "-":
                    depth -= 1
                    if depth == 0:
                        break
                j += 1
            i = j + 1
            continue
        out.append(s[i])
        i += 1
    return "".join(out)


def _split_top(s, sep=" as "):
    depth = 0
    i = 0
    while i < len(s):
        ch = s[i]
        if ch in "<([":
            depth += 1
        elif ch in ")]" or (ch == ">" and s[i - 1] != "-"):
            depth -= 1
        elif depth == 0 and s.startswith(sep, i):
            return s[:i], s[i + len(sep):]
        i += 1
    return s, None


@lru_cache(maxsize=None)
def _callee_key_from_pretty(pretty):
    p = pretty
    p = re.sub(r"\{closure@[^}]*\}", "{closure}", p)
    if p.startswith("<"):
        # <SELF as TRAIT>::method  or  <SELF>::method
        depth = 0
        for i, ch in enumerate(p):
            if ch == "<":
                depth += 1
            elif ch == ">" and p[i - 1] != "-":
                depth -= 1
                if depth == 0:
                    inner = p[1:i]
                    rest = p[i + 1:]
                    break
        else:
            return p
        selfty, trait = _split_top(inner)
        method = strip_generics(rest).lstrip(":")
        if trait is None:
            return "%s::%s" % (short_ty(selfty), method)
        tname = strip_generics(trait)
        # keep trait generic args (e.g. Index<Range<usize>>)
        m = re.match(r"^([A-Za-z0-9_:]+)(<.*>)?$", trait)
        targs = ""
        if m:
            tname = m.group(1)
            targs = m.group(2) or ""
        tshort = tname.split("::")[-1]
        return "%s::%s@%s%s" % (tshort, method, short_ty(selfty), ("@" + short_ty(targs[1:-1])) if targs else "")
    p = strip_generics(p)
    m = re.match(r"^(.*)::<impl ([^>]*(?:<[^>]*>)?[^>]*)>::(.*)$", p)
    if m:
        ty = m.group(2)
        if ty.startswith("["):
            return "slice::%s" % m.group(3)
        return "%s::%s" % (short_ty(ty), m.group(3))
    segs = p.split("::")
    if len(segs) >= 2:
        return "::".join(segs[-2:])
    return p


def short_ty(t):
    t = t.strip()
    t = re.sub(r"\{closure@[^}]*\}", "{closure}", t)
    t = re.sub(r"\b(?:std|core|alloc)::(?:[a-z_0-9]+::)*", "", t)
    t = re.sub(r"\bcollections::(?:hash_map::|hash::map::)?", "", t)
    return t


def callee_key(fnref):
    """short semantic name for a callee: e.g. Option::unwrap, Index::index@[u8]@Range<usize>"""
    return _callee_key_from_pretty(fnref.get("pretty") or fnref["raw"])


def callee_path(fnref):
    return fnref.get("res") or fnref["raw"]


INT_RANGES = {
    "u8": (0, 2 ** 8 - 1), "u16": (0, 2 ** 16 - 1), "u32": (0, 2 ** 32 - 1), "u64": (0, 2 ** 64 - 1),
    "u128": (0, 2 ** 128 - 1), "usize": (0, 2 ** 64 - 1),
    "i8": (-2 ** 7, 2 ** 7 - 1), "i16": (-2 ** 15, 2 ** 15 - 1), "i32": (-2 ** 31, 2 ** 31 - 1),
    "i64": (-2 ** 63, 2 ** 63 - 1), "i128": (-2 ** 127, 2 ** 127 - 1), "isize": (-2 ** 63, 2 ** 63 - 1),
    "bool": (0, 1), "char": (0, 0x10FFFF),
}


class Body:
    def __init__(self, fn):
        self.fn = fn
        self.path = fn["path"]
        m = fn["mir"]
        self.mir = m
        self.blocks = m["blocks"]
        self.locals = m["locals"]
        self.argc = m["argc"]
        n = len(self.blocks)
        self.succ = [[] for _ in range(n)]
        self.usucc = [[] for _ in range(n)]  # including unwind edges
        for i, b in enumerate(self.blocks):
            t = b["term"]
            if not t:
                continue
            k = t["k"]
            s = []
            if k == "goto":
                s = [t["t"]]
            elif k == "switch":
                s = [v[1] for v in t["vals"]] + [t["else"]]
            elif k in ("drop", "assert"):
                s = [t["t"]]
            elif k == "call":
                s = [t["t"]] if t["t"] is not None else []
            elif k == "other":
                s = list(t.get("succ", []))
            seen = []
            for x in s:
                if x not in seen:
                    seen.append(x)
            self.succ[i] = seen
        self.pred = [[] for _ in range(n)]
        for i, ss in enumerate(self.succ):
            for s in ss:
                self.pred[s].append(i)
        self._dom = None
        self._defs = None
        self._reach = None

    # ---- CFG
    def reachable(self):
        if self._reach is None:
            seen = {0}
            st = [0]
            while st:
                x = st.pop()
                for s in self.succ[x]:
                    if s not in seen:
                        seen.add(s)
                        st.append(s)
            self._reach = seen
        return self._reach

    def rpo(self):
        seen = set()
        order = []

        def dfs(x):
            stack = [(x, iter(self.succ[x]))]
            seen.add(x)
            while stack:
                node, it = stack[-1]
                adv = False
                for s in it:
                    if s not in seen:
                        seen.add(s)
                        stack.append((s, iter(self.succ[s])))
                        adv = True
                        break
                if not adv:
                    order.append(node)
                    stack.pop()
        dfs(0)
        order.reverse()
        return order

    def dominators(self):
        """idom array (Cooper-Harvey-Kennedy)"""
        if self._dom is not None:
            return self._dom
        order = self.rpo()
        idx = {b: i for i, b in enumerate(order)}
        idom = {0: 0}
        changed = True
        while changed:
            changed = False
            for b in order[1:]:
                new = None
                for p in self.pred[b]:
                    if p in idom:
                        if new is None:
                            new = p
                        else:
                            a, c = p, new
                            while a != c:
                                while idx[a] > idx[c]:
                                    a = idom[a]
                                while idx[c] > idx[a]:
                                    c = idom[c]
                            new = a
                if new is not None and idom.get(b) != new:
                    idom[b] = new
                    changed = True
        self._dom = idom
        return idom

    def dominates(self, a, b):
        idom = self.dominators()
        if b not in idom or a not in idom:
            return False
        x = b
        while True:
            if x == a:
                return True
            if x == 0:
                return a == 0
            x = idom[x]

    def loops(self):
        """natural loops: list of (head, set(body blocks))"""
        res = {}
        for b in self.reachable():
            for s in self.succ[b]:
                if self.dominates(s, b):
                    body = res.setdefault(s, {s})
                    st = [b]
                    while st:
                        x = st.pop()
                        if x not in body:
                            body.add(x)
                            st.extend(self.pred[x])
        return sorted(res.items())

    # ---- defs
    def defs(self):
        """local -> list of (bb, stmt index or 'term', rvalue-or-call) for whole-local assignments"""
        if self._defs is not None:
            return self._defs
        d = {}
        for bi, b in enumerate(self.blocks):
            for si, s in enumerate(b["stmts"]):
                if s["k"] == "assign":
                    l, proj = s["lhs"]
                    d.setdefault(l, []).append((bi, si, s["rv"], bool(proj)))
            t = b["term"]
            if t and t["k"] == "call":
                l, proj = t["dest"]
                d.setdefault(l, []).append((bi, "term", ["call", t], bool(proj)))
        self._defs = d
        return d

    def local_ty(self, l):
        return self.locals[l]["ty"]

    def local_name(self, l):
        return self.locals[l].get("name")

    def single_def(self, l):
        ds = self.defs().get(l, [])
        if len(ds) == 1 and not ds[0][3]:
            return ds[0]
        return None

    # ---- rendering
    def render_place(self, pl, depth=4, names=True):
        l, proj = pl
        base = self.render_local(l, depth, names)
        return self._apply_proj(base, proj, depth, names)

    def _apply_proj(self, base, proj, depth, names):
        s = base
        for p in proj:
            if p == "*":
                s = "*" + s if not s.startswith("&") else s[1:]
            elif p[0] == "f":
                s = "%s.%s" % (s, p[2] if p[2] is not None else p[1])
            elif p[0] == "i":
                s = "%s[%s]" % (s, self.render_local(p[1], depth - 1, names))
            elif p[0] == "ci":
                s = "%s[%s%d]" % (s, "-" if p[3] else "", p[1])
            elif p[0] == "sub":
                s = "%s[%d..%s%d]" % (s, p[1], "-" if p[3] else "", p[2])
            elif p[0] == "dc":
                s = "(%s as %s)" % (s, p[1])
        return s

    def render_local(self, l, depth=4, names=True):
        if l == 0:
            return "_ret"
        nm = self.local_name(l)
        if l <= self.argc:
            return nm if (names and nm) else "arg%d" % l
        if nm and names:
            return nm
        sd = self.single_def(l)
        if sd is None or depth <= 0:
            if nm and not names:
                return "var:%s" % short_ty(self.local_ty(l))
            return "_%d:%s" % (l, short_ty(self.local_ty(l))) if names else "tmp:%s" % short_ty(self.local_ty(l))
        rv = sd[2]
        return self.render_rvalue(rv, depth - 1, names)

    def render_operand(self, op, depth=4, names=True):
        k = op[0]
        if k in ("copy", "move"):
            return self.render_place(op[1], depth, names)
        if k == "const":
            c = op[1]
            if "v" in c:
                return "%s%s" % (c["v"], c["ty"] if c["ty"] in INT_RANGES and c["ty"] not in ("bool",) else "")
            if "str" in c:
                return repr(c["str"])
            if "fn" in c:
                return "fn:" + callee_key(c["fn"])
            if "bytes" in c:
                return "b" + repr(bytes(c["bytes"]))
            return "const:%s" % short_ty(c["ty"])
        return "?"

    def render_rvalue(self, rv, depth=4, names=True):
        k = rv[0]
        if k == "use":
            return self.render_operand(rv[1], depth, names)
        if k == "ref":
            return "&" + self.render_place(rv[2], depth, names)
        if k == "rawptr":
            return "&raw " + self.render_place(rv[1], depth, names)
        if k == "cast":
            return "(%s as %s)" % (self.render_operand(rv[2], depth, names), short_ty(rv[3]))
        if k == "bin":
            op = rv[1]
            sym = {"Add": "+", "Sub": "-", "Mul": "*", "Div": "/", "Rem": "%", "BitAnd": "&", "BitOr": "|",
                   "BitXor": "^", "Shl": "<<", "Shr": ">>", "Eq": "==", "Ne": "!=", "Lt": "<", "Le": "<=",
                   "Gt": ">", "Ge": ">=", "AddWithOverflow": "+", "SubWithOverflow": "-", "MulWithOverflow": "*"}.get(op, op)
            return "(%s %s %s)" % (self.render_operand(rv[2], depth, names), sym, self.render_operand(rv[3], depth, names))
        if k == "un":
            if rv[1] == "PtrMetadata":
                return "len(%s)" % self.render_operand(rv[2], depth, names)
            return "%s(%s)" % ({"Not": "!", "Neg": "-"}.get(rv[1], rv[1]), self.render_operand(rv[2], depth, names))
        if k == "discr":
            return "discr(%s)" % self.render_place(rv[1], depth, names)
        if k == "agg":
            kd = rv[1]
            args = ", ".join(self.render_operand(o, depth, names) for o in rv[2])
            if kd["k"] == "adt":
                return "%s::%s{%s}" % (kd["path"].split("::")[-1], kd["variant"], args)
            if kd["k"] == "closure":
                return "{closure}"
            return "%s(%s)" % (kd["k"], args)
        if k == "repeat":
            return "[%s; %s]" % (self.render_operand(rv[1], depth, names), rv[2])
        if k == "call":
            t = rv[1]
            if "fn" in t:
                name = callee_key(t["fn"])
            else:
                name = "(" + self.render_operand(t["fnop"], depth, names) + ")"
            return "%s(%s)" % (name, ", ".join(self.render_operand(a, depth, names) for a in t["args"]))
        return "?" + k


def is_external_macro(tag):
    return bool(tag) and tag.startswith("X:")
