"""Helpers over the typed HIR trees: node = [kind, attrs, child...]."""


def kind(n):
    return n[0]


def at(n):
    return n[1]


def kids(n):
    return n[2:]


def walk(n, parents=()):
    """yield (node, parents tuple) pre-order"""
    if not isinstance(n, list) or not n or not isinstance(n[0], str):
        return
    yield n, parents
    np = parents + (n,)
    for c in n[2:]:
        if isinstance(c, list):
            yield from walk(c, np)


def callee(n):
    """resolved callee path of a call / method call node (instance if resolved, else declared fn)"""
    if n[0] in ("call", "mcall"):
        a = n[1]
        return a.get("inst") or a.get("fn") or a.get("ctor")
    return None


def declared_callee(n):
    if n[0] in ("call", "mcall"):
        return n[1].get("fn") or n[1].get("ctor")
    return None


def call_args(n):
    """argument nodes (receiver first for method calls)"""
    if n[0] == "call":
        return n[3:]
    if n[0] == "mcall":
        return n[2:]
    return []


def strip(n):
    """strip transparent wrappers: refs, casts-to-same, blocks with only a tail, `?` desugaring"""
    while True:
        if n[0] == "ref" or n[0] == "un" and n[1].get("op") == "Deref":
            n = n[2]
            continue
        if n[0] == "block" and len(n) == 3 and n[1].get("tail"):
            n = n[2]
            continue
        if n[0] == "match" and n[1].get("src") == "try":
            # match Try::branch(x) { Continue(v) => v, Break(r) => return from_residual(r) }
            inner = n[2]
            if inner[0] == "call" and len(inner) > 3:
                n = inner[3]
                continue
        return n


def is_try(n):
    return n[0] == "match" and n[1].get("src") == "try"


def try_inner(n):
    inner = n[2]
    if inner[0] == "call" and len(inner) > 3:
        return inner[3]
    return None


def find(n, pred):
    return [(x, p) for x, p in walk(n) if pred(x)]


def local_name(n):
    n = strip(n)
    if n[0] == "path" and n[1].get("rk") == "local":
        return n[1]["name"]
    return None


def field_path(n):
    """a.b.c -> ['a','b','c'] for field chains rooted at a local (through refs / derefs), else None"""
    out = []
    n = strip(n)
    while n[0] == "field":
        out.append(n[1]["name"])
        n = strip(n[2])
    if n[0] == "path" and n[1].get("rk") == "local":
        out.append(n[1]["name"])
        return list(reversed(out))
    return None


def lit(n):
    n = strip(n)
    if n[0] == "lit":
        return n[1].get("v")
    if n[0] == "un" and n[1].get("op") == "Neg" and n[2][0] == "lit" and isinstance(n[2][1].get("v"), int):
        return -n[2][1]["v"]
    if n[0] == "cast":
        return lit(n[2])
    return None


def body_of(f):
    h = f.get("hir")
    return h["body"] if h else None


def show(n):
    """source-like canonical rendering of a typed HIR node (resolved callees, no formatting, no positions)"""
    k = n[0]
    a = n[1]
    if k == "path":
        if a.get("rk") == "local":
            return a["name"]
        return (a.get("res") or a.get("text") or "?").split("gamedig::")[-1].replace("::{constructor#0}", "")
    if k == "field":
        return show(n[2]) + "." + a["name"]
    if k == "ref":
        return "&" + show(n[2])
    if k == "un":
        return {"Deref": "*", "Not": "!", "Neg": "-"}.get(a.get("op"), str(a.get("op"))) + show(n[2])
    if k == "lit":
        return repr(a.get("v"))
    if k == "cast":
        return "(%s as %s)" % (show(n[2]), a.get("ty"))
    if k == "mcall":
        fn = (a.get("inst") or a.get("fn") or a["name"])
        return "%s.%s(%s)" % (show(n[2]), fn.split("::")[-1], ", ".join(show(x) for x in n[3:]))
    if k == "call":
        fn = a.get("ctor") or a.get("inst") or a.get("fn")
        name = fn.split("::")[-1] if fn else show(n[2])
        if name in ("box_assume_init_into_vec_unsafe", "into_vec") and len(n) > 3:
            # expansion of vec![a, b, c] (differs between toolchains): render as the macro
            arrs = [x for x, _ in walk(n) if x[0] == "array"]
            if arrs:
                return "vec!" + show(arrs[0])
        return "%s(%s)" % (name, ", ".join(show(x) for x in n[3:]))
    if k == "block":
        ch = [x for x in n[2:]]
        if len(ch) == 1:
            return show(ch[0])
        return "{" + "; ".join(show(x) for x in ch) + "}"
    if k == "closure":
        return "|..| " + show(n[-1])
    if k == "struct":
        nm = (a.get("adt") or a.get("text", "?")).split("::")[-1] + (":" + a["variant"] if "variant" in a else "")
        return nm + "{" + ", ".join("%s: %s" % (x[1]["name"], show(x[2])) if x[0] == "fld" else ".." + (show(x[2]) if len(x) > 2 else "") for x in n[2:]) + "}"
    if k == "match":
        if a.get("src") == "try":
            inner = try_inner(n)
            if inner is not None:
                return show(inner) + "?"
        return "match %s {%s}" % (show(n[2]), "; ".join(show(x) for x in n[3:]))
    if k == "arm":
        g = " if " + show(n[3]) if a.get("guard") else ""
        return "%s%s => %s" % (show_pat(n[2]), g, show(n[-1]))
    if k in ("bin", "assignop"):
        return "(%s %s %s)" % (show(n[2]), a.get("op"), show(n[3]))
    if k == "assign":
        return "%s = %s" % (show(n[2]), show(n[3]))
    if k == "stmt":
        return show(n[2])
    if k == "let":
        return "let %s = %s" % (show_pat(n[2]), show(n[3]) if len(n) > 3 else "")
    if k == "letx":
        return "let %s = %s" % (show_pat(n[2]), show(n[3]))
    if k == "if":
        return "if %s {%s} else {%s}" % (show(n[2]), show(n[3]), show(n[4]) if len(n) > 4 else "")
    if k in ("tup", "array"):
        return ("(" if k == "tup" else "[") + ", ".join(show(x) for x in n[2:]) + (")" if k == "tup" else "]")
    if k == "ret":
        return "return " + (show(n[2]) if len(n) > 2 else "")
    if k == "index":
        return "%s[%s]" % (show(n[2]), show(n[3]))
    if k == "loop":
        return "loop(%s) %s" % (a.get("src"), show(n[2]))
    if k == "break":
        return "break" + (" " + show(n[2]) if len(n) > 2 else "")
    if k == "repeat":
        return "[%s; _]" % show(n[2])
    return k


def show_pat(p):
    k = p[0]
    a = p[1]
    if k == "pbind":
        return a["name"] + ("@" + show_pat(p[2]) if len(p) > 2 else "")
    if k in ("ptstruct", "pstruct", "path"):
        nm = (a.get("res") or "?").split("gamedig::")[-1].replace("::{constructor#0}", "")
        return nm + ("(" + ", ".join(show_pat(x) for x in p[2:]) + ")" if p[2:] else "")
    if k == "pfld":
        return "%s: %s" % (a["name"], show_pat(p[2]))
    if k == "pexpr":
        return show_pat(p[2])
    if k == "pwild":
        return "_"
    if k == "lit":
        return ("-" if a.get("neg") else "") + repr(a.get("v"))
    if k in ("ptuple", "por", "pslice"):
        sep = " | " if k == "por" else ", "
        return "(" + sep.join(show_pat(x) for x in p[2:]) + ")"
    if k in ("pref", "pderef"):
        return "&" + show_pat(p[2])
    if k == "prange":
        return "range"
    return k
