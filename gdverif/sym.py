"""E4/E5 (second generation): symbolic evaluation of a function's typed HIR into a canonical *wire term*.

The evaluator walks the typed HIR of a unit (a function named in a reviewed table), substitutes every let-binding,
inlines every local helper that is not itself a unit or part of the shared kernel (buffer / socket / utils / http / errors),
threads the state of mutated locals, and records only the operations whose order is observable:

  * wire operations (Buffer reads / skips, socket send / receive, sub-parser and unit calls),
  * mutations of collections whose order matters (push / insert / sort ...),
  * writes through `&mut` parameters, calls of closures / function values,
  * the control skeleton they sit under (guards, branches, loops, early exits) and the returned value.

Everything else is a value term attached to the row that consumes it. The result is invariant under renaming,
introducing or removing let-bindings, extracting or inlining private helpers, reordering pure statements, struct
literal field order, `if`/`match`/early-return style, `?` versus `return Err(..)`, literal spelling (68 / b'D'), and
`clone()`-like identity adaptors; it changes when a width, byte order, decoder, delimiter, skip, key, mask, condition,
conversion, destination field, loop bound or error kind changes.  Rows are compared with the reviewed tables."""
import re
from . import hirlib as H

BUF = "gamedig::buffer::{impl#0}::"
BUF_SW = "gamedig::buffer::{impl#3}::switch_endian_chunk"
KERNEL_PREFIXES = ("gamedig::buffer::", "gamedig::socket::", "gamedig::utils::", "gamedig::http::", "gamedig::errors::", "gamedig::capture::")
IDENTITY_METHODS = {"clone", "to_owned", "as_ref", "as_mut", "borrow", "borrow_mut", "deref", "deref_mut", "cloned", "copied", "by_ref"}
COMMUTE = {"Eq", "Ne", "Add", "Mul", "BitAnd", "BitOr", "BitXor", "And", "Or"}
FLIP = {"Gt": "Lt", "Ge": "Le"}
NEG = {"Eq": "Ne", "Ne": "Eq", "Lt": "Ge", "Ge": "Lt", "Le": "Gt", "Gt": "Le"}
MAX_DEPTH = 14
MAP_LOOKUPS = {"remove", "get", "contains_key"}


def short_ty(t):
    t = re.sub(r"\b(?:std|core|alloc|byteorder|gamedig)::(?:[a-z_0-9]+::)*", "", t)
    t = re.sub(r"\b(?:[a-z_0-9]+::)+(?=[A-Z])", "", t)
    t = re.sub(r"'[a-z_]+,? ?", "", t)
    return t.replace("<>", "")


def short_path(p):
    """Type::method / module::function from a def path"""
    p = re.sub(r"\{impl#\d+\}::", "", p)
    p = re.sub(r"<[^<>]*>", "", p)
    parts = [x for x in p.split("::") if x]
    if len(parts) >= 2 and (parts[-2][:1].isupper() or parts[-2] in ("str", "slice", "option", "result")):
        return parts[-2] + "::" + parts[-1]
    return parts[-1] if parts else p


def ctor_name(p):
    s = short_path(p.replace("::{constructor#0}", ""))
    return s.split("::")[-1] if s.split("::")[0] in ("Option", "Result") else s


def owner_name(owner, last, target):
    """Type::method (inherent) / Trait::method (trait items) / function name"""
    if owner:
        kind, o = owner.split(":", 1)
        return "%s::%s" % (type_head(o) if kind == "type" else o.split("::")[-1], last)
    return short_path(target) if target else last


def type_head(t):
    """head type constructor of a (possibly reference) type string: Vec, HashMap, str, slice, Option ..."""
    t = t.strip()
    while t.startswith("&"):
        t = t[1:].lstrip()
        if t.startswith("mut "):
            t = t[4:]
        t = re.sub(r"^'[a-z_]+ ", "", t)
    if t.startswith("["):
        return "slice" if not re.search(r"; *\w+\]$", t) else "array"
    if t.startswith("dyn "):
        t = t[4:]
    t = re.sub(r"<.*$", "", t)
    return t.split("::")[-1] or "?"


def IO_PRED(p):
    return p.startswith(("gamedig::socket::", "gamedig::http::", "gamedig::capture::", "std::net::", "std::io::", "std::fs::", "ureq::", "std::thread::", "std::process::"))


class Op:
    __slots__ = ("id", "name", "args", "tried", "at", "res")

    def __init__(self, id, name, args, at, res=None):
        self.id = id
        self.name = name
        self.args = args
        self.tried = False
        self.at = at
        self.res = res


class Frame:
    def __init__(self, f, subst, depth):
        self.f = f
        self.subst = subst
        self.depth = depth
        self.returns_result = "Result<" in (f.get("ret_ty") or "") if f else True


class Diverge(Exception):
    pass


class Sym:
    def __init__(self, crate, opaque=None, cg=None):
        self.c = crate
        self.cg = cg
        self._pure = {}
        self.opaque = opaque or (lambda p: False)
        self.ops = {}
        self.nop = 0
        self.nloop = 0
        self.nlam = 0
        self.notes = []
        self.cur = None        # current effect list
        self.env = None        # lid -> value
        self.frames = []
        self.stack = []
        self.bv = 0            # bound-variable level counter
        self.nscope = 0
        self.loop_log = []     # every loop evaluated (also inside closures and inlined helpers)
        self.visited = set()   # def paths whose bodies were evaluated (the unit itself and everything inlined into it)
        self.tries = []        # `?` applied to values that are not rows: reported if the value is otherwise unused
        self.loops = []

    # ------------------------------------------------------------------ values
    def lit(self, n):
        a = n[1]
        lk = a.get("lk")
        v = a.get("v")
        if a.get("neg") and isinstance(v, int):
            v = -v
        if lk == "bytes":
            return ("lit", repr(bytes(v)))
        if lk == "str":
            return ("lit", repr(v))
        if lk == "char":
            return ("lit", "'" + str(v) + "'")
        if lk == "bool":
            return ("lit", "true" if v else "false")
        return ("lit", str(v))

    def mk_not(self, v):
        if v[0] == "un" and v[1] == "Not":
            return v[2]
        if v[0] == "bin" and v[1] in NEG:
            return self.mk_bin(NEG[v[1]], v[2], v[3])
        if v == ("lit", "true"):
            return ("lit", "false")
        if v == ("lit", "false"):
            return ("lit", "true")
        return ("un", "Not", v)

    def mk_bin(self, op, a, b):
        if op in FLIP:
            op, a, b = FLIP[op], b, a
        if op in COMMUTE and self.key(b) < self.key(a):
            a, b = b, a
        return ("bin", op, a, b)

    def key(self, v):
        return Printer(self).show(v)

    def mk_fld(self, v, name):
        v = self.strip_id(v)
        if v[0] == "struct":
            for n_, x in v[2]:
                if n_ == name:
                    return x
            if v[3] is not None:
                return self.mk_fld(v[3], name)
        if v[0] == "upd":
            if v[2] == name:
                return v[3]
            return self.mk_fld(v[1], name)
        if v[0] == "ite":
            a, b = self.mk_fld(v[2], name), self.mk_fld(v[3], name)
            return a if a == b else ("ite", v[1], a, b)
        if v[0] == "matchv" and all(x[1][0] in ("struct", "never") for x in v[2]):
            return ("matchv", v[1], tuple((p_, self.mk_fld(x, name) if x[0] == "struct" else x) for p_, x in v[2]))
        return ("fld", v, name)

    def mk_idx(self, v, i):
        if v[0] in ("tup", "arr") and isinstance(i, int) and i < len(v[1]):
            return v[1][i]
        if v[0] == "ite" and isinstance(i, int):
            return self.mk_ite(v[1], self.mk_idx(v[2], i), self.mk_idx(v[3], i))
        if v[0] == "matchv" and isinstance(i, int) and all(x[1][0] in ("tup", "never") for x in v[2]):
            return ("matchv", v[1], tuple((p_, self.mk_idx(x, i) if x[0] == "tup" else x) for p_, x in v[2]))
        return ("idx", v, ("lit", str(i)) if isinstance(i, int) else i)

    def mk_proj(self, v, variant, i):
        """payload i of enum variant `variant` of v"""
        if v[0] == "ctor" and v[1].split("::")[-1] == variant and i < len(v[2]):
            return v[2][i]
        return ("proj", v, variant, i)

    def strip_id(self, v):
        while v[0] in ("ref", "lref"):
            if v[0] == "lref":
                v = self.env.get(v[1], v[2]) if self.env is not None else v[2]
            else:
                v = v[1]
        return v

    def polarity(self, c):
        """(canonical condition, swapped?) - `!x`, `a != b`, `a <= b` are the negative forms of `x`, `a == b`, `b < a`"""
        if c[0] == "un" and c[1] == "Not":
            return c[2], True
        if c[0] == "bin" and c[1] in ("Ne", "Le"):
            return self.mk_not(c), True
        return c, False

    def mk_ite(self, c, a, b):
        if a == b:
            return a
        T, F = ("lit", "true"), ("lit", "false")
        if a == T and b == F:
            return c
        if a == F and b == T:
            return self.mk_not(c)
        if a == T:
            return self.mk_bin("Or", c, b)
        if b == F:
            return self.mk_bin("And", c, a)
        if a == F:
            return self.mk_bin("And", self.mk_not(c), b)
        if b == T:
            return self.mk_bin("Or", self.mk_not(c), a)
        c, sw = self.polarity(c)
        if sw:
            a, b = b, a
        return ("ite", c, a, b)

    def mk_matchv(self, sc, arms):
        """value of a match; `match x {Some(_) => x.Some == v, _ => false}` is `x == Some(v)`"""
        arms = tuple(arms)
        if len(arms) == 2 and arms[0][0] == "Some(_)" and arms[1][0] == "_" and arms[1][1] == ("lit", "false"):
            e = arms[0][1]
            p0 = ("proj", sc, "Some", 0)
            if e[0] == "bin" and e[1] == "Eq" and p0 in (e[2], e[3]):
                other = e[3] if e[2] == p0 else e[2]
                if repr(p0) not in repr(other):
                    return self.mk_bin("Eq", sc, ("ctor", "Some", (other,)))
        return ("matchv", sc, arms)

    # ------------------------------------------------------------------ helpers
    def new_op(self, name, args, at, res=None, emit=True):
        self.nop += 1
        op = Op(self.nop, name, args, at, res)
        self.ops[op.id] = op
        if emit:
            self.cur.append(("op", op.id))
        return ("op", op.id)

    def ty(self, s):
        """apply the generic substitution of the current frame to a type string"""
        fr = self.frames[-1]
        if not fr.subst or not s:
            return s
        for k, v in fr.subst.items():
            if k.startswith("'"):
                continue
            s = re.sub(r"(?<![\w:])%s(?![\w])" % re.escape(k), v, s)
        return s

    def endian(self, recv_ty, gargs):
        for x in [recv_ty] + list(gargs):
            x = self.ty(x or "")
            if "LittleEndian" in x:
                return "LE"
            if "BigEndian" in x:
                return "BE"
        m = re.search(r"Buffer<(?:'?_?\w*,? ?)?(\w+)>", self.ty(recv_ty or ""))
        return m.group(1) if m else "?"

    def note(self, s):
        if s not in self.notes:
            self.notes.append(s)

    # ------------------------------------------------------------------ patterns
    def pat_str(self, p):
        k = p[0]
        a = p[1]
        if k == "pbind":
            return self.pat_str(p[2]) if len(p) > 2 else "_"
        if k in ("ptstruct", "pstruct", "path"):
            nm = ctor_name(a.get("res") or "?")
            subs = [self.pat_str(x) for x in p[2:]]
            if subs and all(s == "_" for s in subs):
                subs = ["_"]
            return nm + ("(" + ", ".join(subs) + ")" if subs else "")
        if k == "pfld":
            return "%s: %s" % (a["name"], self.pat_str(p[2]))
        if k == "pexpr":
            return self.pat_str(p[2])
        if k == "pwild":
            return "_"
        if k == "lit":
            return self.lit(p)[1]
        if k in ("ptuple", "por", "pslice"):
            sep = " | " if k == "por" else ", "
            subs = [self.pat_str(x) for x in p[2:]]
            if k == "ptuple" and subs and all(x == "_" for x in subs):
                return "_"
            return "(" + sep.join(subs) + ")"
        if k in ("pref", "pderef"):
            return self.pat_str(p[2])
        if k == "prange":
            lo = self.pat_str(p[2]) if p[2] else ""
            hi = self.pat_str(p[3]) if len(p) > 3 and p[3] else ""
            return "%s..%s%s" % (lo, "=" if "Included" in a.get("end", "") else "", hi)
        if k == "pguard":
            return self.pat_str(p[2])
        return k

    def bind_pat(self, p, v):
        k = p[0]
        a = p[1]
        if k == "pbind":
            self.env[a["lid"]] = v
            if len(p) > 2:
                self.bind_pat(p[2], v)
        elif k == "ptstruct":
            res = (a.get("res") or "?").replace("::{constructor#0}", "")
            var = res.split("::")[-1]
            for i, x in enumerate(p[2:]):
                self.bind_pat(x, self.mk_proj(v, var, i))
        elif k == "pstruct":
            for x in p[2:]:
                if x[0] == "pfld":
                    self.bind_pat(x[2], self.mk_fld(v, x[1]["name"]))
        elif k == "ptuple":
            for i, x in enumerate(p[2:]):
                self.bind_pat(x, self.mk_idx(self.strip_id(v), i))
        elif k in ("pref", "pderef", "pguard"):
            self.bind_pat(p[2], self.strip_id(v))
        elif k == "pslice":
            for i, x in enumerate(p[2:]):
                self.bind_pat(x, self.mk_idx(v, i))
        elif k == "por":
            for x in p[2:]:
                self.bind_pat(x, v)

    def pat_irrefutable(self, p):
        k = p[0]
        if k in ("pbind",):
            return len(p) == 2 or self.pat_irrefutable(p[2])
        if k == "pwild":
            return True
        if k in ("ptuple", "pref", "pderef"):
            return all(self.pat_irrefutable(x) for x in p[2:])
        if k == "pstruct":
            return "Variant" not in (p[1].get("rk") or "") and all(self.pat_irrefutable(x[2]) for x in p[2:] if x[0] == "pfld")
        return False

    # ------------------------------------------------------------------ places
    def root_lid(self, n):
        """local id at the root of a place expression (through fields, derefs, refs, indexes), plus field path"""
        path = []
        while True:
            k = n[0]
            if k == "field":
                path.append(n[1]["name"])
                n = n[2]
            elif k == "ref" or (k == "un" and n[1].get("op") == "Deref"):
                n = n[2]
            elif k == "index":
                path.append("[]")
                n = n[2]
            elif k == "path" and n[1].get("rk") == "local":
                return n[1]["lid"], list(reversed(path))
            elif k == "block" and len(n) == 3:
                n = n[2]
            else:
                return None, None

    def assign_place(self, lhs, v, at):
        lid, path = self.root_lid(lhs)
        if lid is None:
            self.cur.append(("set", self.ev(lhs), v, at))
            return
        old = self.env.get(lid, ("free", lid))
        if any(x == "[]" for x in path):
            # element store: an ordered mutation of the container
            r = self.new_op("store", [self.ev(lhs[2]) if lhs[0] == "index" else old, self.ev(lhs[3]) if lhs[0] == "index" else ("unit",), v], at)
            self._set_state(lid, ("st", r[1], 0))
            return
        tgt = self._lref_target(old)
        if tgt is not None:
            # write through a `&mut` borrow of a local of an enclosing frame
            cur = self.env.get(tgt, old[1][2])
            self.env[tgt] = v if not path else self._upd(cur, path, v)
            return
        if self._rooted_in_param(old) and (path or self.lty.get(lid, "").startswith("&mut ")):
            # write through a `&mut` parameter: externally visible
            self.cur.append(("set", ("fldpath", self.strip_id(old), tuple(path)) if path else old, v, at))
            if path:
                self.env[lid] = self._upd(self.strip_id(old), path, v)
            return
        self.env[lid] = v if not path else self._upd(self.strip_id(old), path, v)

    def _set_state(self, lid, v):
        old = self.env.get(lid)
        tgt = self._lref_target(old) if old is not None else None
        if tgt is not None:
            self.env[tgt] = v
        elif old is not None and self._rooted_in_param(old):
            pass
        else:
            self.env[lid] = v

    def _upd(self, base, path, v):
        if len(path) == 1:
            return ("upd", base, path[0], v)
        return ("upd", base, path[0], self._upd(self.mk_fld(base, path[0]), path[1:], v))

    def _rooted_in_param(self, v):
        v = self.strip_id(v)
        while v[0] in ("upd", "fld"):
            v = self.strip_id(v[1])
        return v[0] == "param"

    def _lref_target(self, v):
        return v[1][1] if v[0] == "ref" and v[1][0] == "lref" else None

    # ------------------------------------------------------------------ evaluation
    def run_unit(self, f):
        """-> list of effect items for unit f (params symbolic)"""
        self.cur = []
        self.env = {}
        self.lty = {}
        fr = Frame(f, {}, 0)
        self.frames = [fr]
        self.stack = [f["path"]]
        self.visited.add(f["path"])
        for i, p in enumerate(f["hir"].get("params", [])):
            self._scan_types(p)
            self.bind_pat(p, ("param", i))
        body = f["hir"]["body"]
        self._scan_types(body)
        try:
            v = self.ev(body, tail=True)
            self.emit_return(v, body[1].get("at"))
        except Diverge:
            pass
        return self.cur

    def _scan_types(self, n):
        for x, _ in H.walk(n):
            if x[0] == "pbind":
                self.lty[x[1]["lid"]] = x[1].get("ty", "")

    def emit_return(self, v, at):
        fr = self.frames[-1]
        if fr.returns_result:
            kind, pay = self.unwrap_result(v)
            if kind == "err":
                self.cur.append(("fail", self.err_kind(pay), at))
                return
            u = self.try_unwrap(v)
            self.cur.append(("ret", u if u is not None else ("try", v), at))
        else:
            self.cur.append(("ret", v, at))

    def unwrap_result(self, v):
        if v[0] == "ctor" and v[1].endswith("Ok") and len(v[2]) == 1:
            return "ok", v[2][0]
        if v[0] == "ctor" and v[1].endswith("Err") and len(v[2]) == 1:
            return "err", v[2][0]
        return "dyn", v

    def err_kind(self, v):
        """canonical error value: GDErrorKind variant without context message / conversions"""
        v = self.strip_id(v)
        while v[0] == "call" and v[1] in ("GDErrorKind::context", "Into::into", "From::from", "GDError::new", "GDError::from"):
            if not v[3]:
                break
            v = self.strip_id(v[3][0])
        return v

    def ev_block(self, n, tail=False):
        kids = n[2:]
        has_tail = bool(n[1].get("tail"))
        val = ("unit",)
        for i, s in enumerate(kids):
            last = i == len(kids) - 1
            if s[0] == "let":
                self.ev_let(s)
            elif s[0] == "stmt":
                self.ev(s[2])
            else:
                val = self.ev(s, tail=tail and last and has_tail)
        return val if has_tail else ("unit",)

    def ev_let(self, s):
        pat = s[2]
        if not s[1].get("init"):
            return
        v = self.ev(s[3])
        if s[1].get("els"):
            # let PAT = v else { diverge }
            saved = self.cur
            self.cur = []
            env0 = dict(self.env)
            try:
                self.ev_block(s[4])
            except Diverge:
                pass
            els = self.cur
            self.cur = saved
            self.env = env0
            self.cur.append(("match", v, [("!" + self.pat_str(pat), None, els)], s[1].get("at")))
        self.bind_pat(pat, v)

    def branch(self, fn):
        """run fn() in a fresh effect list and a copy of the environment -> (effects, env, value, diverged)"""
        saved_cur, saved_env = self.cur, self.env
        self.cur = []
        self.env = dict(saved_env)
        div = False
        val = ("unit",)
        try:
            val = fn()
        except Diverge:
            div = True
        eff, env = self.cur, self.env
        self.cur, self.env = saved_cur, saved_env
        return eff, env, val, div

    def merge_env(self, cond, e1, e2):
        out = dict(e1)
        for k in set(e1) | set(e2):
            a, b = e1.get(k), e2.get(k)
            if a is None or b is None:
                out[k] = a if a is not None else b
            elif a != b:
                out[k] = self.mk_ite(cond, a, b)
        return out

    def ev_if(self, n, tail=False):
        cn = n[2]
        at = n[1].get("at")
        if cn[0] == "letx":
            # if let PAT = e {A} else {B}  ==  match e { PAT => A, _ => B }
            arms = [("arm", {}, cn[2], n[3])]
            els = n[4] if len(n) > 4 else ["block", {}, ]
            arms.append(("arm", {}, ["pwild", {}], els))
            return self.ev_match_arms(self.ev(cn[3]), arms, at, tail)
        if cn[0] == "bin" and cn[1].get("op") == "And" and any(x[0] == "letx" for x, _ in H.walk(cn)):
            self.note("let-chain condition rendered opaquely")
        c = self.ev(cn)
        if c == ("lit", "true"):
            return self.ev(n[3], tail=tail)
        if c == ("lit", "false"):
            return self.ev(n[4], tail=tail) if len(n) > 4 else ("unit",)
        e1, env1, v1, d1 = self.branch(lambda: self.ev(n[3], tail=tail))
        if len(n) > 4:
            e2, env2, v2, d2 = self.branch(lambda: self.ev(n[4], tail=tail))
        else:
            e2, env2, v2, d2 = [], dict(self.env), ("unit",), False
        return self.join2(c, (e1, env1, v1, d1), (e2, env2, v2, d2), at)

    def join2(self, c, b1, b2, at):
        (e1, env1, v1, d1), (e2, env2, v2, d2) = b1, b2
        if d1 and d2:
            cc, sw = self.polarity(c)
            self.cur.append(("if", cc, e2 if sw else e1, e1 if sw else e2, at))
            raise Diverge()
        if d1:
            # guard: the diverging branch is listed, the other continues in line
            self.cur.append(("guard", self.mk_not(c), e1, at))
            self.cur.extend(e2)
            self.env = env2
            return v2
        if d2:
            self.cur.append(("guard", c, e2, at))
            self.cur.extend(e1)
            self.env = env1
            return v1
        if e1 or e2:
            cc, sw = self.polarity(c)
            if sw:
                e1, e2 = e2, e1
            self.cur.append(("if", cc, e1, e2, at))
        self.env = self.merge_env(c, env1, env2)
        return self.mk_ite(c, v1, v2)

    def ev_match(self, n, tail=False):
        src = n[1].get("src")
        if src == "try":
            return self.ev_try(n)
        if src == "for":
            return self.ev_for(n)
        scrut = self.ev(n[2])
        return self.ev_match_arms(scrut, n[3:], n[1].get("at"), tail)

    def ev_body(self, b, tail=False):
        return b(tail) if callable(b) else self.ev(b, tail=tail)

    def ev_match_arms(self, scrut, arms, at, tail=False):
        sc = self.strip_id(scrut)
        # match (e1, e2) { (P1, P2) => X, _ => Y }  ==  match e1 { P1 => match e2 { P2 => X, _ => Y }, _ => Y }
        if sc[0] == "tup" and len(arms) == 2 and not any(a[1].get("guard") for a in arms) and arms[1][2][0] == "pwild":
            p0 = arms[0][2]
            while p0[0] in ("pref", "pderef"):
                p0 = p0[2]
            if p0[0] == "ptuple" and len(p0[2:]) == len(sc[1]) and "dotdot" not in p0[1]:
                subs = p0[2:]
                x_body, y_body = arms[0][-1], arms[1][-1]

                def nest(i, tail_):
                    if i == len(subs):
                        return self.ev_body(x_body, tail_)
                    if self.pat_irrefutable(subs[i]):
                        self.bind_pat(subs[i], sc[1][i])
                        return nest(i + 1, tail_)
                    return self.ev_match_arms(sc[1][i], [("arm", {}, subs[i], lambda t, i=i: nest(i + 1, t)), ("arm", {}, ["pwild", {}], y_body)], at, tail_)
                return nest(0, tail)
        # bool scrutinee: an if
        pats = [self.pat_str(a[2]) for a in arms]
        if set(pats) <= {"true", "false", "_"} and len(arms) == 2 and pats[0] in ("true", "false") and not any(a[1].get("guard") for a in arms):
            bt = arms[0] if pats[0] == "true" else arms[1]
            bf = arms[1] if pats[0] == "true" else arms[0]
            b1 = self.branch(lambda: self.ev_body(bt[-1], tail))
            b2 = self.branch(lambda: self.ev_body(bf[-1], tail))
            return self.join2(sc, b1, b2, at)
        # two disjoint arms on an Option / Result: Some / Ok first
        if len(arms) == 2 and not any(a[1].get("guard") for a in arms):
            p0, p1 = self.pat_str(arms[0][2]), self.pat_str(arms[1][2])
            if (p0 == "None" and p1.startswith("Some(")) or (p0.startswith("Err(") and p1.startswith("Ok(")):
                arms = [arms[1], arms[0]]
        # match x { P if g => E, _ => {} }  ==  match x { P => if g { E }, _ => {} }
        if len(arms) == 2 and arms[0][1].get("guard") and not arms[1][1].get("guard") and arms[1][2][0] == "pwild" \
                and not callable(arms[1][-1]) and arms[1][-1][0] == "block" and len(arms[1][-1]) == 2:
            g_node, body0 = arms[0][3], arms[0][-1]

            def guarded(tail_, g_node=g_node, body0=body0):
                c_ = self.ev(g_node)
                b1 = self.branch(lambda: self.ev_body(body0, tail_))
                b2 = ([], dict(self.env), ("unit",), False)
                return self.join2(c_, b1, b2, at)
            return self.ev_match_arms(scrut, [("arm", {}, arms[0][2], guarded), arms[1]], at, tail)
        # a choice between known constructors: the match distributes over the choice
        if sc[0] == "ite" and sc[2][0] == "ctor" and sc[3][0] == "ctor" and not any(a[1].get("guard") for a in arms):
            b1 = self.branch(lambda: self.ev_match_arms(sc[2], arms, at, tail))
            b2 = self.branch(lambda: self.ev_match_arms(sc[3], arms, at, tail))
            return self.join2(sc[1], b1, b2, at)
        # a known constructor: select the arm statically (inlined helpers returning Some(..)/Ok(..))
        if sc[0] == "ctor" and not any(a[1].get("guard") for a in arms):
            want = sc[1].split("::")[-1]
            for a in arms:
                top = a[2]
                while top[0] in ("pref", "pderef"):
                    top = top[2]
                if top[0] == "pwild" or (top[0] == "pbind" and len(top) == 2):
                    sel = True
                elif top[0] in ("ptstruct", "pstruct", "path", "pexpr"):
                    t2 = top[2] if top[0] == "pexpr" else top
                    nm = ((t2[1].get("res") or "?").replace("::{constructor#0}", "")).split("::")[-1]
                    if nm != want:
                        continue
                    sel = all(self.pat_irrefutable(x) for x in top[2:]) if top[0] == "ptstruct" else top[0] != "pstruct" or self.pat_irrefutable(top)
                    if not sel:
                        break
                else:
                    break
                if sel:
                    self.bind_pat(a[2], sc)
                    return self.ev_body(a[-1], tail)
        results = []
        for i, a in enumerate(arms):
            pat = a[2]
            guard = a[3] if a[1].get("guard") else None

            box = {}

            def run(a=a, pat=pat, guard=guard, box=box):
                self.bind_pat(pat, sc)
                if guard is not None:
                    box["g"] = self.ev(guard)
                return self.ev_body(a[-1], tail)
            eff, env, val, div = self.branch(run)
            results.append((self.pat_str(pat), box.get("g"), eff, env, val if not div else ("never",), div, guard is not None))
        # single irrefutable arm: a plain binding
        if len(arms) == 1 and self.pat_irrefutable(arms[0][2]):
            p, g, eff, env, v, div, _ = results[0]
            self.cur.extend(eff)
            self.env = env
            if div:
                raise Diverge()
            return v
        # canonical last arm
        names = [r[0] for r in results]
        if len(names) >= 2 and not results[-1][6] and names[-1] in ("None", "Err(_)", "_", "false", "true"):
            names[-1] = "_"
        live = [i for i, r in enumerate(results) if not r[5]]
        dead = [i for i, r in enumerate(results) if r[5]]
        guards_present = any(r[6] for r in results)
        if not live:
            self.cur.append(("match", sc, [(names[i], results[i][1], results[i][2]) for i in range(len(results))], at))
            raise Diverge()
        if dead and len(live) == 1 and not guards_present:
            # all other arms diverge: list them, continue in line with the surviving arm
            self.cur.append(("match", sc, [(names[i], results[i][1], results[i][2]) for i in dead], at))
            i = live[0]
            self.cur.extend(results[i][2])
            self.env = results[i][3]
            return results[i][4]
        if any(r[2] for r in results):
            # arms with a guard are listed even without operations of their own: the guard decides which rows run
            self.cur.append(("match", sc, [(names[i], results[i][1], results[i][2] or [("sel", at)]) for i in range(len(results)) if results[i][2] or results[i][6]], at))
        # merge environments / values of the live arms
        env = None
        for i in live:
            if env is None:
                env = dict(results[i][3])
            else:
                for k in set(env) | set(results[i][3]):
                    a_, b_ = env.get(k), results[i][3].get(k)
                    if a_ is not None and b_ is not None and a_ != b_:
                        env[k] = self.mk_matchv(sc, tuple((names[j], results[j][3].get(k, ("unit",))) for j in live))
                    elif a_ is None:
                        env[k] = b_
        self.env = env
        vals = [(names[i], results[i][1], results[i][4] if not results[i][5] else ("never",)) for i in range(len(results))]
        if all(v[2] == vals[live[0]][2] for j, v in enumerate(vals) if j in live) and not guards_present and vals[live[0]][2] == ("unit",):
            return ("unit",)
        return self.mk_matchv(sc, tuple((p, v) if g is None else (p + " if " + self.show(g), v) for p, g, v in vals))

    def ev_try(self, n):
        inner = H.try_inner(n)
        if inner is None:
            return ("unknown",)
        v = self.ev(inner, mode="try")
        return self.apply_try(v, n[1].get("at"))

    def apply_try(self, v, at):
        kind, pay = self.unwrap_result(v)
        if kind == "err":
            self.cur.append(("fail", self.err_kind(pay), at))
            raise Diverge()
        u = self.try_unwrap(v)
        if u is not None:
            return u
        if v[0] == "call" and v[1] in ("Result::map", "Option::map") and len(v[3]) == 2:
            # x.map(f)?  ==  f(x?)
            return self.apply_value(v[3][1], [self.apply_try(v[3][0], at)], at)
        t = ("try", v)
        self.tries.append(t)
        return t

    def apply_value(self, f, args, at):
        """application of a function value to arguments: beta-reduction for effect-free lambdas, a constructor / call otherwise"""
        if f[0] == "lam" and not f[3] and f[2] == len(args):
            return self.subst_bv(f[4], f[1], args)
        if f[0] == "lam" and not f[3] and f[2] == 0:
            return f[4]
        if f[0] == "path":
            return ("call", f[1], (), tuple(args))
        if f[0] == "ctor" and not f[2]:
            return ("ctor", f[1], tuple(args))
        return ("call", "apply", (), tuple([f] + list(args)))

    def subst_bv(self, v, lvl, args):
        if isinstance(v, tuple):
            if len(v) == 3 and v[0] == "bv" and v[1] == lvl and isinstance(v[2], int):
                return args[v[2]] if v[2] < len(args) else v
            return tuple(self.subst_bv(x, lvl, args) for x in v)
        if isinstance(v, list):
            return [self.subst_bv(x, lvl, args) for x in v]
        return v

    def try_unwrap(self, v, commit=True):
        """payload of `v?` when v is visibly Ok(..)/Some(..), a fresh row (marked `?`), or a choice between such values"""
        if v[0] == "ctor" and v[1] in ("Ok", "Some") and len(v[2]) == 1:
            return v[2][0]
        if v[0] == "op" and (self.ops[v[1]].res == "fresh" or self.ops[v[1]].tried):
            if commit:
                self.ops[v[1]].tried = True
                self.ops[v[1]].res = None
            return v
        if v[0] == "never":
            return v
        if v[0] == "ite":
            if self.try_unwrap(v[2], False) is None or self.try_unwrap(v[3], False) is None:
                return None
            return self.mk_ite(v[1], self.try_unwrap(v[2], commit), self.try_unwrap(v[3], commit))
        if v[0] == "matchv":
            if any(self.try_unwrap(x, False) is None for _, x in v[2]):
                return None
            return ("matchv", v[1], tuple((p_, self.try_unwrap(x, commit)) for p_, x in v[2]))
        return None

    def ev_for(self, n):
        # match into_iter(EXPR) { mut iter => loop { match next(&mut iter) { None => break, Some(PAT) => BODY } } }
        it = n[2]
        itv = self.ev(it[3]) if it[0] == "call" and len(it) > 3 else self.ev(it)
        arm = n[3]
        loop = H.strip(arm[-1])
        inner = None
        for x, _ in H.walk(loop):
            if x[0] == "match" and x[1].get("src") == "for" and x is not n:
                inner = x
                break
        if inner is None:
            return ("unknown",)
        some = [a for a in inner[3:] if self.pat_str(a[2]).startswith("Some")]
        if not some:
            return ("unknown",)
        pat = some[0][2][2] if some[0][2][0] == "ptstruct" else some[0][2]
        body = some[0][-1]
        return self.ev_loop_body("for", itv, pat, body, n[1].get("at"))

    def assigned_in(self, n):
        """locals (lid) defined outside n that n may modify: assignment targets, `&mut` borrows, mutating method receivers"""
        inner = set()
        out = []
        for x, _ in H.walk(n):
            if x[0] == "pbind":
                inner.add(x[1]["lid"])
        for x, _ in H.walk(n):
            tgt = None
            if x[0] in ("assign", "assignop"):
                tgt = x[2]
            elif x[0] == "ref" and x[1].get("mut"):
                tgt = x[2]
            elif x[0] == "mcall" and (x[2][1].get("aty") or "").startswith("&mut "):
                tgt = x[2]
            if tgt is not None:
                lid, _p = self.root_lid(tgt)
                if lid is not None and lid not in inner and lid not in out:
                    out.append(lid)
        return out

    def ev_loop_body(self, kind, header, pat, body, at):
        self.nloop += 1
        lid_ = self.nloop
        carried = [l for l in self.assigned_in(body) if l in self.env and not self._is_resource_ty(l)]
        init = {l: self.env[l] for l in carried}
        for i, l in enumerate(carried):
            self.env[l] = ("phi", lid_, i)
        saved = self.cur
        self.cur = []
        env0 = dict(self.env)
        self.loops = getattr(self, "loops", [])
        self.loops.append((lid_, carried))
        if pat is not None:
            self.bind_pat(pat, ("item", lid_))
        try:
            self.ev(body)
            self.cur.append(("next", lid_, self.snapshot(lid_, carried), at))
        except Diverge:
            pass
        self.loops.pop()
        eff = self.cur
        self.cur = saved
        self.env = env0
        inits = [(i, init[l]) for i, l in enumerate(carried)]
        if kind == "while":
            eff, inits = self.rotate_flag_loop(lid_, eff, inits)
        self.cur.append(("loop", lid_, kind, header, inits, eff, at))
        self.loop_log.append(self.cur[-1])
        for i, l in enumerate(carried):
            self.env[l] = ("after", lid_, i)
        return ("unit",)

    def subst_term(self, v, old, new):
        if v == old:
            return new
        if isinstance(v, tuple):
            return tuple(self.subst_term(x, old, new) for x in v)
        if isinstance(v, list):
            return [self.subst_term(x, old, new) for x in v]
        return v

    def rotate_flag_loop(self, lid_, eff, inits):
        """`let mut done = false; while !done { ..; done = e }` is `loop { ..; if e { break } }`: when the guard at the top
        tests a carried flag whose initial value lets the first iteration run and that is used for nothing else, the
        test moves to the end of the iteration and the flag disappears"""
        if not eff or eff[0][0] != "guard" or len(eff[0][2]) != 1 or eff[0][2][0][0] != "break":
            return eff, inits
        cond = eff[0][1]
        init = dict(inits)
        phis = [k for k in init if repr(("phi", lid_, k)) in repr(cond)]
        if len(phis) != 1:
            return eff, inits
        k = phis[0]
        phi = ("phi", lid_, k)
        if init[k] not in (("lit", "true"), ("lit", "false")):
            return eff, inits
        first = self.subst_term(cond, phi, init[k])
        first = self.simplify_bool(first)
        if first != ("lit", "true") or eff[0][2][0][2]:
            return eff, inits
        rest = eff[1:]

        def strip(es):
            """remove the flag from snapshots, collect where else it occurs"""
            out = []
            for e in es:
                if e[0] in ("next", "break") and e[1] == lid_:
                    snap = tuple(x for x in e[2] if x[0] != k)
                    newv = dict(e[2]).get(k, phi)
                    if e[0] == "next":
                        c2 = self.simplify_bool(self.subst_term(cond, phi, newv))
                        if c2 != ("lit", "true"):
                            if c2 == ("lit", "false"):
                                out.append(("break", lid_, snap, e[3]))
                                continue
                            out.append(("guard", c2, [("break", lid_, snap, e[3])], e[3]))
                    out.append((e[0], lid_, snap, e[3]))
                elif e[0] == "if":
                    out.append(("if", e[1], strip(e[2]), strip(e[3]), e[4]))
                elif e[0] == "guard":
                    out.append(("guard", e[1], strip(e[2]), e[3]))
                elif e[0] == "match":
                    out.append(("match", e[1], [(p_, g_, strip(sub)) for p_, g_, sub in e[2]], e[3]))
                elif e[0] == "scope":
                    out.append(("scope", e[1], strip(e[2]), e[3]))
                else:
                    out.append(e)
            return out
        new = strip(rest)
        if repr(phi) in repr(new) or any(repr(phi) in repr(self.ops[e[1]].args) for e in self._ops_in(new)):
            return eff, inits
        return new, [(i, v) for i, v in inits if i != k]

    def _ops_in(self, es):
        out = []
        for e in es:
            if e[0] == "op":
                out.append(e)
            elif e[0] == "if":
                out += self._ops_in(e[2]) + self._ops_in(e[3])
            elif e[0] == "guard":
                out += self._ops_in(e[2])
            elif e[0] == "match":
                for arm in e[2]:
                    out += self._ops_in(arm[2])
            elif e[0] in ("scope",):
                out += self._ops_in(e[2])
            elif e[0] == "loop":
                out += self._ops_in(e[5])
        return out

    def simplify_bool(self, v):
        if v[0] == "un" and v[1] == "Not":
            x = self.simplify_bool(v[2])
            return self.mk_not(x)
        return v

    def snapshot(self, lid_, carried):
        out = []
        for i, l in enumerate(carried):
            v = self.env.get(l)
            if v != ("phi", lid_, i):
                out.append((i, v))
        return tuple(out)

    def ev_loop(self, n):
        src = n[1].get("src")
        return self.ev_loop_body("while" if src == "While" else "loop", None, None, n[2], n[1].get("at"))

    def ev_closure(self, n):
        self.nlam += 1
        npar = n[1].get("nparams", 0)
        params = n[2:2 + npar]
        body = n[-1]
        lvl = self.bv
        self.bv += 1

        def run():
            for i, p in enumerate(params):
                self._scan_types(p)
                self.bind_pat(p, ("bv", lvl, i))
            self.frames.append(Frame(None, self.frames[-1].subst, self.frames[-1].depth))
            self.frames[-1].returns_result = "Result<" in (body[1].get("ty") or "")
            self.frames[-1].is_closure = True
            try:
                return self.ev(body, tail=True)
            finally:
                self.frames.pop()
        eff, env, val, div = self.branch(run)
        self.bv -= 1
        if div:
            val = ("never",)
        # state of captured locals mutated by the closure is unknown afterwards only if it is called; the wire operations it
        # performs are rows of the lambda itself
        return ("lam", lvl, npar, eff, val)

    # ------------------------------------------------------------------ expressions
    def ev(self, n, tail=False, mode=None):
        v = self.ev0(n, tail, mode)
        if tail and v[0] == "ctor" and v[1] == "Err" and len(v[2]) == 1 and self.frames[-1].returns_result:
            # `Err(e)` as the value of a tail position is an early failure like `return Err(e)` / `Err(e)?`
            self.cur.append(("fail", self.err_kind(v[2][0]), n[1].get("at")))
            raise Diverge()
        return v

    def ev0(self, n, tail=False, mode=None):
        k = n[0]
        a = n[1]
        if k == "lit":
            return self.lit(n)
        if k == "path":
            if a.get("rk") == "local":
                v = self.env.get(a["lid"])
                if v is None:
                    return ("free", a.get("name"))
                if v[0] == "ref" and v[1][0] == "lref" and v[1][1] in self.env:
                    return ("ref", ("lref", v[1][1], self.env[v[1][1]]))
                return v
            res = a.get("res") or a.get("text") or "?"
            res = res.replace("::{constructor#0}", "")
            if a.get("rk", "").startswith("Ctor"):
                return ("ctor", ctor_name(res), ())
            if a.get("rk") in ("Fn", "AssocFn"):
                lamv = self.fn_item_value(a, res)
                if lamv is not None:
                    return lamv
            if a.get("owner"):
                return ("path", owner_name(a["owner"], res.split("::")[-1], res))
            cv = self.const_value(res)
            if cv is not None:
                return cv
            return ("path", short_path(res))
        if k == "block":
            return self.ev_block(n, tail=tail)
        if k == "field":
            base = self.ev(n[2])
            nm = a["name"]
            if nm.isdigit():
                return self.mk_idx(self.strip_id(base), int(nm))
            return self.mk_fld(base, nm)
        if k == "ref":
            inner = n[2]
            v = self.ev(inner)
            if a.get("mut"):
                lid, path = self.root_lid(inner)
                if lid is not None and not path and v[0] != "ref":
                    return ("ref", ("lref", lid, v))
            return v
        if k == "un":
            op = a.get("op")
            v = self.ev(n[2])
            if op == "Deref":
                v = self.strip_id(v)
                if v[0] == "lref":
                    return self.env.get(v[1], v[2])
                return v
            if op == "Not":
                return self.mk_not(v)
            if op == "Neg" and v[0] == "lit" and re.match(r"^\d+$", v[1]):
                return ("lit", "-" + v[1])
            return ("un", op, v)
        if k == "cast":
            v = self.ev(n[2])
            t = short_ty(self.ty(a.get("ty", "?")))
            if v[0] == "lit" and re.match(r"^\d+$", v[1]) and re.match(r"^[iu](8|16|32|64|128|size)$", t):
                return v
            return ("cast", t, v)
        if k == "bin":
            op = a.get("op")
            if op in ("And", "Or"):
                l = self.ev(n[2])
                eff, env, r, div = self.branch(lambda: self.ev(n[3]))
                if eff or div:
                    # right operand has observable operations: a branch
                    if op == "And":
                        self.cur.append(("if", l, eff, [], a.get("at")))
                    else:
                        self.cur.append(("if", l, [], eff, a.get("at")))
                    self.env = self.merge_env(l, env, self.env) if op == "And" else self.merge_env(l, self.env, env)
                return self.mk_bin(op, l, r)
            return self.mk_bin(op, self.ev(n[2]), self.ev(n[3]))
        if k == "tup":
            return ("tup", tuple(self.ev(x) for x in n[2:]))
        if k == "array":
            return ("arr", tuple(self.ev(x) for x in n[2:]))
        if k == "repeat":
            return ("repeat", self.ev(n[2]), a.get("count", "?")[:40])
        if k == "index":
            base = self.ev(n[2])
            i = self.ev(n[3])
            return ("idx", self.strip_id(base), i)
        if k == "struct":
            return self.ev_struct(n)
        if k == "if":
            return self.ev_if(n, tail=tail)
        if k == "match":
            return self.ev_match(n, tail=tail)
        if k == "loop":
            return self.ev_loop(n)
        if k == "closure":
            return self.ev_closure(n)
        if k == "assign":
            v = self.ev(n[3])
            self.assign_place(n[2], v, a.get("at"))
            return ("unit",)
        if k == "assignop":
            old = self.ev(n[2])
            v = self.ev(n[3])
            self.assign_place(n[2], self.mk_bin(a.get("op", "?").replace("Assign", ""), old, v), a.get("at"))
            return ("unit",)
        if k == "ret":
            v = self.ev(n[2], tail=True) if len(n) > 2 else ("unit",)
            self.emit_return(v, a.get("at"))
            raise Diverge()
        if k == "break":
            lp = getattr(self, "loops", [])
            if lp:
                lid_, carried = lp[-1]
                self.cur.append(("break", lid_, self.snapshot(lid_, carried), a.get("at")))
            raise Diverge()
        if k == "continue":
            lp = getattr(self, "loops", [])
            if lp:
                lid_, carried = lp[-1]
                self.cur.append(("next", lid_, self.snapshot(lid_, carried), a.get("at")))
            raise Diverge()
        if k in ("call", "mcall"):
            return self.ev_call(n, tail=tail, mode=mode)
        if k == "letx":
            v = self.ev(n[3])
            self.bind_pat(n[2], v)
            return ("is", v, self.pat_str(n[2]))
        if k == "stmt":
            return self.ev(n[2])
        if k == "constblock":
            return ("const",)
        return ("unknown", k)

    def fn_item_value(self, a, res):
        """a local, inlinable function used as a value (`.map(parse_item)`): the lambda it denotes"""
        target = a.get("inst") or res
        if self.frames[-1].subst and (not a.get("inst") or a.get("inst") == res):
            r = self.resolve_trait_method(res, [self.ty(x) for x in (a.get("gargs") or [])]) if "::" in res else None
            if r:
                target = r
        f = self.c.fn(target)
        if f is None or not f.get("hir") or self.is_opaque(target) or target in self.stack or self.frames[-1].depth >= MAX_DEPTH:
            return None
        params = f["hir"].get("params", [])
        lvl = self.bv
        self.bv += 1
        saved_lty = self.lty
        gens = f.get("generics") or []
        ga = [self.ty(x) for x in (a.get("gargs") or [])]
        subst = dict(self.frames[-1].subst)
        if len(gens) == len(ga):
            for g_, t_ in zip(gens, ga):
                if not g_.startswith("'") and g_ != t_:
                    subst[g_] = t_

        def run():
            self.lty = dict(saved_lty)
            for i, p in enumerate(params):
                self._scan_types(p)
                self.bind_pat(p, ("bv", lvl, i))
            self._scan_types(f["hir"]["body"])
            self.frames.append(Frame(f, subst, self.frames[-1].depth + 1))
            self.frames[-1].is_closure = True
            self.stack.append(f["path"])
            self.visited.add(f["path"])
            saved_loops, self.loops = self.loops, []
            try:
                return self.ev(f["hir"]["body"], tail=True)
            finally:
                self.loops = saved_loops
                self.frames.pop()
                self.stack.pop()
        eff, env, val, div = self.branch(run)
        self.lty = saved_lty
        self.bv -= 1
        return ("lam", lvl, len(params), eff, val if not div else ("never",))

    def const_value(self, res):
        cs = getattr(self.c, "consts", None)
        if not cs:
            return None
        v = cs.get(res) if isinstance(cs, dict) else None
        if isinstance(v, dict):
            v = v.get("v")
        if isinstance(v, (int, bool)):
            return ("lit", str(v).lower() if isinstance(v, bool) else str(v))
        return None

    def ev_struct(self, n):
        a = n[1]
        nm = short_path(a.get("adt") or a.get("text", "?")).split("::")[-1]
        if a.get("variant"):
            nm += "::" + a["variant"]
        flds = []
        base = None
        for x in n[2:]:
            if x[0] == "fld":
                flds.append((x[1]["name"], self.ev(x[2])))
            elif x[0] == "base" and len(x) > 2:
                base = self.ev(x[2])
        if nm.startswith("Range") and not base:
            d = dict(flds)
            return ("range", nm, d.get("start"), d.get("end"))
        return ("struct", nm, tuple(sorted(flds)), base)

    # ------------------------------------------------------------------ calls
    def callee_of(self, n):
        """(declared path, resolved path or None, generic args [substituted])"""
        a = n[1]
        decl = a.get("fn") or ""
        inst = a.get("inst")
        ga = [self.ty(x) for x in (a.get("inst_gargs") if inst and a.get("inst_gargs") is not None else a.get("gargs") or [])]
        if n[0] == "call" and not decl and n[2][0] == "path":
            decl = n[2][1].get("res") or ""
            inst = n[2][1].get("inst")
            ga = [self.ty(x) for x in n[2][1].get("gargs") or []]
        if decl and (not inst or inst == decl) and self.frames[-1].subst:
            # trait method on a type parameter that the inlining context has made concrete
            r = self.resolve_trait_method(decl, [self.ty(x) for x in (a.get("gargs") or [])])
            if r:
                inst = r
        return decl, inst, ga

    def resolve_trait_method(self, decl, gargs):
        if not gargs:
            return None
        tr = decl.rsplit("::", 1)[0]
        meth = decl.rsplit("::", 1)[1]
        self_ty = gargs[0]
        for im in self.c.impls:
            if im.get("trait") == tr and short_ty(im.get("self_ty", "")) == short_ty(self_ty):
                p = im.get("items", {}).get(meth)
                if p:
                    return p
        return None

    def is_mutating(self, n, args):
        """indices of arguments passed by `&mut` (explicit borrow, reborrow of a `&mut` local, or auto-ref'd receiver)"""
        out = []
        for i, x in enumerate(args):
            ty = x[1].get("aty") or x[1].get("ty") or ""
            if ty.startswith("&mut "):
                out.append(i)
        return out

    def ev_call(self, n, tail=False, mode=None):
        a = n[1]
        at = a.get("at")
        mt = a.get("mt", "")
        args = H.call_args(n)
        if mt.startswith("X:format") or mt.startswith("X:concat"):
            vals = [self.ev(x) for x in self.macro_user_args(n)]
            return ("call", "fmt!", (), tuple(vals)) if vals else ("fmt",)
        if mt.startswith(("X:println", "X:print", "X:eprintln", "X:writeln", "X:write")) and n[0] in ("call", "mcall"):
            # one row per macro invocation (the outermost call of the expansion), with the caller's arguments
            vals = [self.ev(x) for x in self.macro_user_args(n)]
            return self.new_op(mt.split(":", 1)[1] + "!", vals, at, res="fresh")
        if a.get("ctor"):
            vals = tuple(self.ev(x) for x in args)
            return ("ctor", ctor_name(a["ctor"]), vals)
        decl, inst, ga = self.callee_of(n)
        target = inst or decl
        if mt.startswith("X:vec") and target.split("::")[-1] in ("into_vec", "box_assume_init_into_vec_unsafe"):
            arrs = [x for x, _ in H.walk(n) if x[0] == "array"]
            if arrs:
                return ("arr", tuple(self.ev(x) for x in arrs[0][2:]))
        if not decl and n[0] == "call":
            # call of a value: closure / function pointer / parameter
            fv = self.ev(n[2])
            vals = [self.ev(x) for x in args]
            if fv[0] == "lam" and not fv[3]:
                self.note("pure closure applied")
            r = self.new_op("apply", [fv] + vals, at, res="fresh")
            return r
        # ---- wire operations
        w = self.wire_op(n, decl, inst, ga, args, at)
        if w is not None:
            return w
        last = target.split("::")[-1]
        # identity adaptors
        if n[0] == "mcall" and last in IDENTITY_METHODS and len(args) == 1:
            return self.ev(args[0])
        if decl.endswith("Try::branch") or decl.endswith("FromResidual::from_residual"):
            return self.ev(args[0])
        if decl.endswith("IntoIterator::into_iter") and len(args) == 1:
            return self.ev(args[0])
        if (decl.endswith("Into::into") or decl.endswith("From::from")) and len(args) == 1:
            v = self.ev(args[0])
            t = short_ty(self.ty(a.get("ty", "")))
            if "GDError" in t:
                return v
            if re.match(r"^([iu](8|16|32|64|128|size)|f32|f64)$", t):
                # integer / float `From` exists only where it is lossless: the same value as the widening `as`
                if v[0] == "lit" and re.match(r"^\d+$", v[1]):
                    return v
                return ("conv", t, v)     # rendered like a cast; rules that care (C15) know it cannot lose information
            return ("call", "into<%s>" % t, (), (v,))
        if target.startswith("gamedig::errors::"):
            vals = [self.ev(x) for x in args]
            if last == "context" and vals:
                return vals[0]
            return ("call", short_path(target), (), tuple(vals))
        # ---- local functions: inline unless opaque
        f = self.c.fn(target) if target.startswith(self.c.name + "::") or target.startswith("gamedig") else None
        if f is not None and (a.get("owner") or "").startswith("trait:") and (not inst or inst == decl) and not f.get("impl_trait"):
            # a trait method called on a type the context does not fix: the trait's default body is not what runs
            f = None
        if f is not None and f.get("hir") and not self.is_opaque(target) and target not in self.stack and self.frames[-1].depth < MAX_DEPTH:
            r = self.inline(f, n, args, ga, at, mode, tail)
            if r is not None:
                return r
        vals = [self.ev(x) for x in args]
        name = self.ext_name(n, target, args)
        tga = [short_ty(x) for x in ga if not x.startswith("'")][-1:]
        local = f is not None
        mut = self.is_mutating(n, args)
        if local and not mut and self.is_pure(f):
            return ("call", self.stable_name(f), (), tuple(vals))
        if local:
            # opaque local call (another unit / kernel function / recursion): an ordered row
            r = self.new_op("call " + self.stable_name(f), vals, at, res="fresh")
            self._after_mut(args, mut, r)
            return r
        # keyed lookups on a map with a literal key commute with each other
        if name.startswith("HashMap::") and last in MAP_LOOKUPS and len(vals) == 2 and vals[1][0] == "lit":
            return self.map_lookup(args[0], vals, last, at)
        if mut:
            shown = name + ("<" + ",".join(tga) + ">" if tga and last in ("parse", "collect", "into", "from", "try_into", "sum") else "")
            r = self.new_op(shown, vals, at, res="fresh")
            self._after_mut(args, mut, r)
            return r
        r = self.option_combinator(name, vals, at)
        if r is not None:
            return r
        gtxt = ("<" + ",".join(tga) + ">") if tga and last in ("parse", "collect", "try_into", "try_from", "sum", "from_str", "from_str_radix", "size_of") else ""
        return ("call", name + gtxt, (), tuple(vals))

    def option_combinator(self, name, vals, at):
        """Option/Result combinators with effect-free closures are the matches they abbreviate"""
        def pure(f):
            return (f[0] == "lam" and not f[3]) or f[0] in ("path", "ctor")
        if name == "Option::map_or_else" and len(vals) == 3 and pure(vals[1]) and pure(vals[2]):
            x = vals[0]
            return self.mk_matchv(x, (("Some(_)", self.apply_value(vals[2], [("proj", x, "Some", 0)], at)), ("_", self.apply_value(vals[1], [], at))))
        if name == "Option::map_or" and len(vals) == 3 and pure(vals[2]):
            x = vals[0]
            return self.mk_matchv(x, (("Some(_)", self.apply_value(vals[2], [("proj", x, "Some", 0)], at)), ("_", vals[1])))
        if name == "Option::unwrap_or_else" and len(vals) == 2 and pure(vals[1]):
            x = vals[0]
            return self.mk_matchv(x, (("Some(_)", ("proj", x, "Some", 0)), ("_", self.apply_value(vals[1], [], at))))
        return None

    def macro_user_args(self, n):
        """the caller-written expressions inside a macro expansion (nodes whose span is not from the expansion), in order"""
        out = []

        def walk(x):
            for c in x[2:]:
                if not (isinstance(c, list) and c and isinstance(c[0], str)):
                    continue
                if isinstance(c[1], dict) and "at" in c[1] and not c[1].get("mt") and c[0] not in ("arm", "fld", "block", "stmt", "let", "pbind", "pwild", "ptstruct", "pstruct", "ptuple"):
                    out.append(c)
                else:
                    walk(c)
        walk(n)
        return out

    def ext_name(self, n, target, args):
        a = n[1]
        last = target.split("::")[-1] if target else a.get("name", "?")
        return owner_name(a.get("owner") or (n[2][1].get("owner") if n[0] == "call" and n[2][0] == "path" else None), last, target)

    def _after_mut(self, args, mut, r):
        k = 0
        for i in mut:
            lid, path = self.root_lid(args[i])
            if lid is None or self._is_resource_ty(lid):
                continue
            self._set_state(lid, ("st", r[1], k))
            k += 1

    def _is_resource_ty(self, lid):
        t = self.lty.get(lid, "")
        return any(x in t for x in ("Buffer<", "Socket", "socket::", "TcpStream", "UdpSocket"))

    def map_lookup(self, recv_node, vals, last, at):
        lid, path = self.root_lid(recv_node)
        base = vals[0]
        key = vals[1]
        if base[0] == "mapstate":
            b0, keys = base[1], base[2]
        else:
            b0, keys = base, frozenset()
        if last == "remove":
            if key[1] in keys or lid is None or path:
                r = self.new_op("HashMap::remove", vals, at, res="fresh")
                if lid is not None:
                    self.env[lid] = ("st", r[1], 0)
                return r
            self.env[lid] = ("mapstate", b0, keys | {key[1]})
            return ("lookup", b0, key[1], "remove")
        if key[1] in keys:
            return ("ctor", "None", ()) if last == "get" else ("lit", "false")
        return ("lookup", b0, key[1], last)

    def stable_name(self, f):
        from . import sites as S
        if (f.get("impl_trait") or "") == "gamedig::socket::Socket":
            # the concrete socket type is a feature-dependent alias (plain or capturing wrapper): name the trait method
            return "socket::Socket::" + f["name"]
        return S.fn_display(f).split("gamedig::", 1)[-1]

    def is_pure(self, f):
        """an opaque local function with no `&mut` parameter that reaches no socket / http / std::net / std::io function"""
        p = f["path"]
        if p in self._pure:
            return self._pure[p]
        ok = self.cg is not None and f.get("hir") is not None
        if ok:
            gens = [g for g in (f.get("generics") or []) if not g.startswith("'")]
            for pp in f["hir"].get("params", []):
                for x, _ in H.walk(pp):
                    t = x[1].get("ty") or ""
                    # `&mut` state, closures / function values (their effects happen inside the callee), or a bare type parameter
                    if "&mut " in t or re.search(r"\bFn(Mut|Once)?\b|\bfn\(", t) or t in gens:
                        ok = False
        if ok:
            ok = not IO_PRED(p) and not self.cg.reaches(p, IO_PRED)
        self._pure[p] = ok
        return ok

    def is_opaque(self, path):
        return path.startswith(KERNEL_PREFIXES) or self.opaque(path)

    def inline(self, f, n, args, ga, at, mode, tail):
        fr = self.frames[-1]
        gens = f.get("generics") or []
        subst = dict(fr.subst)
        if len(gens) == len(ga):
            for g_, t_ in zip(gens, ga):
                if not g_.startswith("'") and g_ != t_:
                    subst[g_] = t_
        vals = [self.ev(x) for x in args]
        returns_result = "Result<" in (f.get("ret_ty") or "")
        saved_cur, saved_env, saved_lty, saved_loops = self.cur, self.env, self.lty, getattr(self, "loops", [])
        nop0 = self.nop
        self.cur = []
        self.env = {}
        self.lty = dict(saved_lty)
        self.loops = []
        self.frames.append(Frame(f, subst, fr.depth + 1))
        self.stack.append(f["path"])
        self.visited.add(f["path"])
        div = False
        val = ("unit",)
        try:
            params = f["hir"].get("params", [])
            for p, v in zip(params, vals):
                self._scan_types(p)
                self.bind_pat(p, v)
            self._scan_types(f["hir"]["body"])
            try:
                val = self.ev(f["hir"]["body"], tail=True)
            except Diverge:
                div = True
        finally:
            self.frames.pop()
            self.stack.pop()
            eff = self.cur
            callee_env = self.env
            self.cur, self.env, self.lty, self.loops = saved_cur, saved_env, saved_lty, saved_loops
        exits = self.count_exits(eff)
        propagate = mode == "try" or (tail and returns_result and self.frames[-1].returns_result)
        if exits["ret"] > 0 and not div:
            # early `return v` under guards: the same function written without early returns nests the rest under the guard
            # and yields a choice of values - rewrite to that form when every early return sits directly under a guard
            r = self.desugar_returns(eff, val, returns_result)
            if r is not None:
                eff, val = r
                exits = self.count_exits(eff)
        if exits["ret"] > 0 or (exits["fail"] > 0 and not propagate):
            # early `return ..` or failures that the caller does not simply propagate: the callee's rows form a scope whose
            # value is the callee's result (`fail e` inside it yields Err(e), `ret v` yields the value)
            self.nscope += 1
            sid = self.nscope
            if not div:
                saved = self.cur
                self.cur = eff
                self.frames.append(Frame(f, subst, fr.depth + 1))
                try:
                    self.emit_return(val, at)
                finally:
                    self.frames.pop()
                    self.cur = saved
            self.cur.append(("scope", sid, eff, at))
            for v in vals:
                tgt = self._lref_target(v)
                if tgt is not None and tgt in callee_env:
                    self.env[tgt] = callee_env[tgt]
            return ("scope", sid)
        self.cur.extend(eff)
        # mutations the callee made through `&mut` arguments that refer to the caller's locals
        for v in vals:
            tgt = self._lref_target(v)
            if tgt is not None and tgt in callee_env:
                self.env[tgt] = callee_env[tgt]
        if div:
            raise Diverge()
        if returns_result and propagate:
            return val
        return val

    def desugar_returns(self, effs, tailval, returns_result):
        def has_ret(es):
            return self.count_exits(es)["ret"] > 0
        for i, e in enumerate(effs):
            if e[0] == "guard" and has_ret(e[2]):
                div = e[2]
                if not div or div[-1][0] != "ret" or has_ret(div[:-1]):
                    return None
                a = div[-1][1]
                if returns_result:
                    a = a[1] if a[0] == "try" else ("ctor", "Ok", (a,))
                rest = self.desugar_returns(effs[i + 1:], tailval, returns_result)
                if rest is None:
                    return None
                rest_effs, b = rest
                out = list(effs[:i])
                pre = list(div[:-1])
                if rest_effs or pre:
                    cc, sw = self.polarity(e[1])
                    out.append(("if", cc, pre if sw else rest_effs, rest_effs if sw else pre, e[3]))
                return out, self.mk_ite(e[1], b, a)
            if e[0] in ("if", "match", "loop", "scope") and has_ret([e]):
                return None
            if e[0] == "ret":
                return None
        return list(effs), tailval

    def count_exits(self, eff):
        out = {"ret": 0, "fail": 0}

        def walk(es):
            for e in es:
                if e[0] == "ret":
                    out["ret"] += 1
                elif e[0] == "fail":
                    out["fail"] += 1
                elif e[0] == "if":
                    walk(e[2])
                    walk(e[3])
                elif e[0] == "guard":
                    walk(e[2])
                elif e[0] == "match":
                    for arm in e[2]:
                        walk(arm[2])
                elif e[0] == "loop":
                    walk(e[5])
        walk(eff)
        return out

    def wire_op(self, n, decl, inst, ga, args, at):
        a = n[1]
        if decl == BUF + "read":
            t = short_ty(ga[-1]) if ga else "?"
            recv = args[0]
            e = self.endian(recv[1].get("aty") or recv[1].get("ty"), ga) if t not in ("u8", "i8") else ""
            return self.new_op("read<%s%s>" % (t, "," + e if e else ""), [self.resource(args[0])], at, res="fresh")
        if decl == BUF + "read_string":
            d = short_ty(ga[-1]) if ga else "?"
            until = self.ev(args[1]) if len(args) > 1 else ("ctor", "None", ())
            return self.new_op("read_string<%s>" % d, [self.resource(args[0]), until], at, res="fresh")
        if decl == BUF + "move_cursor":
            return self.new_op("move_cursor", [self.resource(args[0]), self.ev(args[1])], at, res="fresh")
        if decl == BUF + "new":
            t = short_ty(self.ty(a.get("ty", "")))
            m = re.search(r"(LittleEndian|BigEndian|\b[A-Z]\w*)>$", t)
            return self.new_op("Buffer<%s>::new" % (m.group(1) if m else "?"), [self.ev(args[0])], at)
        if decl.startswith(BUF) and decl[len(BUF):] in ("remaining_bytes", "remaining_length", "current_position", "data_length"):
            return ("call", "Buffer::" + decl[len(BUF):], (), (self.resource(args[0]),))
        if decl == BUF_SW:
            return ("call", "switch_endian_chunk", (), tuple(self.ev(x) for x in args))
        if decl.startswith("gamedig::socket::Socket::") or (inst or "").startswith("gamedig::socket::") and (inst or "").split("::")[-1] in ("send", "receive", "new", "apply_timeout", "port"):
            nm = (decl if decl.startswith("gamedig::socket::Socket::") else inst).split("::")[-1]
            vals = [self.ev(x) for x in args]
            if nm in ("send", "receive"):
                return self.new_op("socket." + nm, [self.resource(args[0])] + vals[1:], at, res="fresh")
            if nm == "new":
                return self.new_op("Socket::new", vals, at, res="fresh")
        return None

    def resource(self, n):
        """identity of a buffer / socket operand: the value it was created from (creation row, parameter, field)"""
        return self.strip_id(self.ev(n))

    # ------------------------------------------------------------------ rendering
    def show(self, v, num=None):
        return Printer(self, num).show(v)


EFFECT_KINDS = {"op", "guard", "if", "match", "loop", "break", "next", "ret", "fail", "set"}


class Printer:
    """assigns canonical numbers to operations / loops in order of first appearance and renders rows"""

    def __init__(self, sym, num=None, select=None):
        self.s = sym
        self.select = select
        self.opn = {}
        self.loopn = {}
        self.scopen = {}
        self.carn = {}
        self.depth = 0
        self.rows = []
        self.pending = []
        self.nlam = 0
        self.ctx = []
        self.seen_try = set()

    def opname(self, i):
        if i not in self.opn:
            self.opn[i] = len(self.opn) + 1
        return "$%d" % self.opn[i]

    def carried(self, loop, k):
        """carried variables are numbered per loop in order of first appearance (the header lists them first)"""
        m = self.carn.setdefault(loop, {})
        if k not in m:
            m[k] = len(m)
        return m[k]

    def scopename(self, i):
        if i not in self.scopen:
            self.scopen[i] = len(self.scopen) + 1
        return "try%d" % self.scopen[i]

    def unselected(self, op, pre):
        """projection: a value produced by a row that is not shown - wire reads are named, local mutations are spelled out"""
        if op.name.startswith(("read", "socket.", "Buffer<", "move_cursor", "call ", "apply")) or self.depth > 12:
            return "%s<%s>" % (pre, op.name)
        self.depth += 1
        try:
            return "%s%s(%s)" % (pre, op.name, ", ".join(self.show(x) for x in op.args))
        finally:
            self.depth -= 1

    def loopname(self, i):
        if i not in self.loopn:
            self.loopn[i] = len(self.loopn) + 1
        return "L%d" % self.loopn[i]

    def show(self, v):
        k = v[0]
        if k == "lit":
            return v[1]
        if k == "op":
            if self.select is not None and not self.select(self.s.ops[v[1]]):
                return self.unselected(self.s.ops[v[1]], "")
            return self.opname(v[1])
        if k == "st":
            if self.select is not None and not self.select(self.s.ops[v[1]]):
                return self.unselected(self.s.ops[v[1]], "~")
            return "~" + self.opname(v[1]) + ("" if not v[2] else "'" * v[2])
        if k == "param":
            return "a%d" % v[1]
        if k == "bv":
            return "b%d_%d" % (v[1], v[2])
        if k == "phi":
            return "%s.v%d" % (self.loopname(v[1]), self.carried(v[1], v[2]))
        if k == "after":
            return "%s.out%d" % (self.loopname(v[1]), self.carried(v[1], v[2]))
        if k == "item":
            return "%s.item" % self.loopname(v[1])
        if k == "ref":
            return self.show(v[1])
        if k == "lref":
            return self.show(v[2])
        if k == "fld":
            return "%s.%s" % (self.show(v[1]), v[2])
        if k == "fldpath":
            return "%s.%s" % (self.show(v[1]), ".".join(v[2]))
        if k == "idx":
            return "%s[%s]" % (self.show(v[1]), self.show(v[2]))
        if k == "proj":
            return "%s.%s%s" % (self.show(v[1]), v[2], "" if v[3] == 0 else ".%d" % v[3])
        if k == "ctor":
            return v[1] + ("(" + ", ".join(self.show(x) for x in v[2]) + ")" if v[2] else "")
        if k == "path":
            return v[1]
        if k == "call":
            return "%s(%s)" % (v[1], ", ".join(self.show(x) for x in v[3]))
        if k == "struct":
            return "%s{%s%s}" % (v[1], ", ".join("%s: %s" % (n_, self.show(x)) for n_, x in v[2]), (", ..%s" % self.show(v[3])) if v[3] is not None else "")
        if k == "upd":
            return "%s{%s: %s}" % (self.show(v[1]), v[2], self.show(v[3]))
        if k == "range":
            return "%s..%s%s" % (self.show(v[2]) if v[2] else "", "=" if "Inclusive" in v[1] else "", self.show(v[3]) if v[3] else "")
        if k == "tup":
            return "(" + ", ".join(self.show(x) for x in v[1]) + ")"
        if k == "arr":
            return "[" + ", ".join(self.show(x) for x in v[1]) + "]"
        if k == "repeat":
            return "[%s; %s]" % (self.show(v[1]), v[2])
        if k == "bin":
            return "(%s %s %s)" % (self.show(v[2]), v[1], self.show(v[3]))
        if k == "un":
            return "%s(%s)" % (v[1], self.show(v[2]))
        if k in ("cast", "conv"):
            return "(%s as %s)" % (self.show(v[2]), v[1])
        if k == "ite":
            return "if %s {%s} else {%s}" % (self.show(v[1]), self.show(v[2]), self.show(v[3]))
        if k == "matchv":
            return "match %s {%s}" % (self.show(v[1]), "; ".join("%s => %s" % (p, self.show(x)) for p, x in v[2]))
        if k == "is":
            return "(%s is %s)" % (self.show(v[1]), v[2])
        if k == "try":
            self.seen_try.add(id(v))
            return self.show(v[1]) + "?"
        if k == "lookup":
            return "%s.%s(%s)" % (self.show(v[1]), v[3], v[2])
        if k == "mapstate":
            return "%s - {%s}" % (self.show(v[1]), ", ".join(sorted(v[2])))
        if k == "lam":
            if v[3]:
                self.nlam += 1
                nm = "fn%d" % self.nlam
                inner = Printer(self.s, select=self.select)
                inner.opn, inner.loopn, inner.nlam, inner.seen_try, inner.scopen, inner.carn = self.opn, self.loopn, self.nlam, self.seen_try, self.scopen, self.carn
                inner.emit(list(v[3]), self.ctx + [nm])
                self.nlam = inner.nlam
                body = inner.show(v[4])
                self.nlam = inner.nlam
                self.pending.extend(inner.pending)
                self.pending.extend(inner.rows)
                if self.select is None:
                    self.pending.append("%s | ret %s" % (" & ".join(self.ctx + [nm]), body))
                return "%s/%d" % (nm, v[2])
            return "|%d| %s" % (v[2], self.show(v[4]))
        if k == "scope":
            return self.scopename(v[1])
        if k == "unit":
            return "()"
        if k == "never":
            return "!"
        if k == "fmt":
            return "fmt!"
        if k == "free":
            return "free:%s" % (v[1],)
        return k

    def row(self, ctx, text, op=None):
        if self.select is not None and (op is None or not self.select(op)):
            del self.pending[:]
            return
        self._row(ctx, text)

    def _row(self, ctx, text):
        # rows of closures defined inside `text` were queued while rendering it: they precede the row that uses them
        self.rows.extend(self.pending)
        del self.pending[:]
        self.rows.append((" & ".join(ctx) or "-") + " | " + text)

    def fail_only(self, e):
        """the single error kind (rendered) this effect can fail with, if it does nothing else"""
        k = e[0]
        if k == "fail":
            return self.show(e[1])
        subs = None
        if k == "guard":
            subs = [e[2]]
        elif k == "if":
            subs = [e[2], e[3]]
        elif k == "match":
            subs = [arm[2] for arm in e[2]]
        if subs is None:
            return None
        kinds = set()
        for es in subs:
            for x in es:
                r = self.fail_only(x)
                if r is None:
                    return None
                kinds.add(r)
        return kinds.pop() if len(kinds) == 1 else None

    def emit(self, eff, ctx):
        # consecutive checks that only fail (with the same error) and have no operation between them commute
        i = 0
        out = []
        while i < len(eff):
            kind = self.fail_only(eff[i]) if eff[i][0] in ("guard", "if", "match") else None
            j = i + 1
            if kind is not None:
                while j < len(eff) and eff[j][0] in ("guard", "if", "match") and self.fail_only(eff[j]) == kind:
                    j += 1
            if kind is not None and j - i >= 2:
                groups = []
                for e in eff[i:j]:
                    sub = Printer(self.s, select=self.select)
                    sub.opn, sub.loopn, sub.scopen, sub.seen_try, sub.nlam, sub.carn = self.opn, self.loopn, self.scopen, self.seen_try, self.nlam, self.carn
                    sub.emit1([e], ctx)
                    groups.append(sub.pending + sub.rows)
                for g in sorted(groups):
                    self.rows.extend(self.pending)
                    del self.pending[:]
                    self.rows.extend(g)
            else:
                self.emit1(eff[i:j], ctx)
            i = j

    def emit1(self, eff, ctx):
        for e in eff:
            k = e[0]
            self.ctx = ctx
            if k == "op":
                op = self.s.ops[e[1]]
                if self.select is not None and not self.select(op):
                    continue
                args = ", ".join(self.show(x) for x in op.args)
                self.row(ctx, "%s = %s(%s)%s" % (self.opname(op.id), op.name, args, "?" if op.tried else ""), op)
            elif k == "guard":
                cond = self.show(e[1])
                if len(e[2]) == 1 and e[2][0][0] in ("fail", "break", "next") and not (e[2][0][0] != "fail" and e[2][0][2]):
                    self.row(ctx, "require %s else %s" % (cond, "fail " + self.show(e[2][0][1]) if e[2][0][0] == "fail" else e[2][0][0]))
                else:
                    self.row(ctx, "require %s" % cond)
                    self.emit(e[2], ctx + ["unless(%s)" % cond])
            elif k == "if":
                cond = self.show(e[1])
                self.emit(e[2], ctx + ["if(%s)" % cond])
                self.emit(e[3], ctx + ["else(%s)" % cond])
            elif k == "match":
                sc = self.show(e[1])
                for pat, g, sub in e[2]:
                    self.ctx = ctx
                    self.emit(sub, ctx + ["match(%s)=>%s%s" % (sc, pat, " if " + self.show(g) if g is not None else "")])
            elif k == "loop":
                ln = self.loopname(e[1])
                hdr = "for %s" % self.show(e[3]) if e[3] is not None else "loop"
                self.row(ctx, "%s: %s%s" % (ln, hdr, "".join(" ; v%d := %s" % (self.carried(e[1], i), self.show(x)) for i, x in e[4])))
                self.emit(e[5], ctx + [ln])
            elif k in ("break", "next"):
                snap = "".join(" ; v%d := %s" % (self.carried(e[1], i), self.show(x)) for i, x in e[2])
                if k == "next" and not snap:
                    continue
                self.row(ctx, "%s%s" % (k, snap))
            elif k == "ret":
                self.emit_ret(ctx, e[1])
            elif k == "fail":
                self.row(ctx, "fail %s" % self.show(e[1]))
            elif k == "set":
                self.row(ctx, "set %s := %s" % (self.show(e[1]), self.show(e[2])))
            elif k == "sel":
                self.row(ctx, "selected")
            elif k == "scope":
                self.emit(e[2], ctx + [self.scopename(e[1])])
            self.ctx = ctx

    def finish(self):
        """`?` on values that ended up in no row still decide success: list them (order-free)"""
        extra = []
        for t in (self.s.tries if self.select is None else []):
            if id(t) not in self.seen_try:
                p = Printer(self.s)
                p.opn, p.loopn, p.scopen, p.carn = dict(self.opn), dict(self.loopn), dict(self.scopen), {k_: dict(v_) for k_, v_ in self.carn.items()}
                extra.append("- | unused-but-checked %s?" % p.show(t[1]))
        self.rows.extend(self.pending)
        del self.pending[:]
        # ordered by the rows they refer to (numerically), not by their text
        self.rows.extend(sorted(set(extra), key=lambda r: ([int(x) for x in re.findall(r"\$(\d+)", r)], r)))

    def emit_ret(self, ctx, v):
        if v[0] == "struct" and len(v[2]) > 2:
            for n_, x in v[2]:
                self.row(ctx, "ret %s.%s := %s" % (v[1], n_, self.show(x)))
            if v[3] is not None:
                self.row(ctx, "ret %s.. := %s" % (v[1], self.show(v[3])))
        else:
            self.row(ctx, "ret %s" % self.show(v))


def rows_of(crate, f, opaque=None, cg=None):
    s = Sym(crate, opaque, cg)
    eff = s.run_unit(f)
    p = Printer(s)
    p.emit(eff, [])
    p.finish()
    return p.rows, s.notes
