"""E1 value analysis: forward abstract interpretation over MIR with
   * intervals per integer term,
   * zone facts  x <= y + k  between terms (locals, field places, len:<container>),
   * variant knowledge / variant-conditional facts for Option / Result / ControlFlow / Ordering,
   * function summaries inferred from local callee bodies (contracts such as error_by_expected_size).
Terms are canonical place strings; facts about a term die when the place may be written."""
import re
from .mirlib import Body, callee_key, callee_path, INT_RANGES, short_ty

INF = float("inf")
ISIZE_MAX = 2 ** 63 - 1

LEN_FNS = {"Vec::len", "slice::len", "str::len", "String::len", "HashMap::len", "HashSet::len", "VecDeque::len",
           "[u8]::len", "BTreeMap::len", "BTreeSet::len"}
EMPTY_FNS = {"Vec::is_empty", "slice::is_empty", "str::is_empty", "String::is_empty", "HashMap::is_empty"}
# length-preserving views: result refers to the same container as arg0
VIEW_FNS = {"Deref::deref", "DerefMut::deref_mut", "Vec::as_slice", "Vec::as_mut_slice", "AsRef::as_ref",
            "String::as_str", "String::as_bytes", "str::as_bytes", "Borrow::borrow", "Vec::as_ref", "AsMut::as_mut",
            "String::as_mut_str", "Vec::deref", "String::deref", "slice::as_ref"}
ITER_FNS = {"slice::iter", "Vec::iter", "slice::iter_mut", "IntoIterator::into_iter"}


def is_int_ty(t):
    return t in INT_RANGES


def ty_range(t):
    return INT_RANGES.get(t, (-INF, INF))


class State:
    __slots__ = ("iv", "le", "bools", "variants", "cond", "alias", "refs", "ranges", "subdef", "discr", "iters",
                 "mutref", "clos", "divdef")

    def __init__(self):
        self.iv = {}
        self.le = {}
        self.bools = {}
        self.variants = {}
        self.cond = {}
        self.alias = {}
        self.refs = {}
        self.ranges = {}
        self.subdef = {}
        self.discr = {}
        self.iters = {}
        self.mutref = set()
        self.clos = {}
        self.divdef = {}

    def copy(self):
        s = State()
        for k in State.__slots__:
            v = getattr(self, k)
            if k == "cond":
                setattr(s, k, {a: list(b) for a, b in v.items()})
            elif k == "mutref":
                setattr(s, k, set(v))
            else:
                setattr(s, k, dict(v))
        return s

    def same(self, o):
        return all(getattr(self, k) == getattr(o, k) for k in State.__slots__)


def _mentions(term, pref):
    """does term (possibly len:X) refer to place pref or a sub-place / super-place of it"""
    t = term[4:] if term.startswith("len:") else term
    if t.startswith("slice:"):
        t = t[6:]
    if t == pref:
        return True
    if t.startswith(pref) and t[len(pref)] in ".*@[":
        return True
    return False


class Ctx:
    """crate-wide context: bodies, summaries, never-written fields, parameter constant summaries"""

    def __init__(self, crate, closed_world=False):
        self.crate = crate
        self.closed_world = closed_world
        self.bodies = {}
        self.summaries = {}
        self._in_progress = set()
        self.written_fields = set()
        self.param_consts = {}
        self._callers = {}
        self._caller_in_progress = set()
        self._prepass()

    def body(self, path):
        if path not in self.bodies:
            f = self.crate.fn(path)
            if f is None or "mir" not in f:
                self.bodies[path] = None
            else:
                self.bodies[path] = Body(f)
        return self.bodies[path]

    def _prepass(self):
        calls = {}
        for f in self.crate.fns:
            if "mir" not in f:
                continue
            for bidx, b in enumerate(f["mir"]["blocks"]):
                for s in b["stmts"]:
                    if s["k"] == "assign":
                        for p in s["lhs"][1]:
                            if isinstance(p, list) and p[0] == "f" and p[2] is not None:
                                self.written_fields.add(p[2])
                t = b["term"]
                if t and t["k"] == "call" and "fn" in t and not b["cleanup"]:
                    fn = t["fn"]
                    p = fn.get("res") or fn["raw"]
                    if fn.get("local"):
                        calls.setdefault(p, []).append((f["path"], bidx, t["args"]))
                    # trait-method calls through generics: record under the raw path as well
                    if fn.get("res") is None:
                        calls.setdefault(fn["raw"], []).append((f["path"], bidx, t["args"]))
        self.calls = calls

    def call_sites(self, f):
        path = f["path"]
        sites = list(self.calls.get(path, []))
        if f.get("impl_trait"):
            sites += self.calls.get(f["impl_trait"] + "::" + f["name"], [])
        return sites

    def caller_interp(self, cpath, callee):
        """interpreter state of a caller (memoised); None on cycles"""
        if cpath in self._callers:
            return self._callers[cpath]
        if cpath in self._caller_in_progress:
            return None
        body = self.body(cpath)
        if body is None:
            return None
        self._caller_in_progress.add(cpath)
        try:
            it = Interp(body, self, 1).run()
        except Exception:
            it = None
        finally:
            self._caller_in_progress.discard(cpath)
        self._callers[cpath] = it
        return it

    def summary(self, path, depth=0):
        if path in self.summaries:
            return self.summaries[path]
        if path in self._in_progress or depth > 3:
            return None
        body = self.body(path)
        if body is None:
            self.summaries[path] = None
            return None
        self._in_progress.add(path)
        try:
            it = Interp(body, self, depth + 1)
            it.run()
            s = it.make_summary()
        except RecursionError:
            s = None
        finally:
            self._in_progress.discard(path)
        self.summaries[path] = s
        return s


class Interp:
    def __init__(self, body, ctx, depth=0):
        self.b = body
        self.ctx = ctx
        self.depth = depth
        self.instates = {}
        self.visits = {}
        self.loop_heads = {h for h, _ in body.loops()}
        self.ret_by_src = {}

    # ------------------------------------------------------------------ terms
    def lty(self, l):
        return self.b.locals[l]["ty"]

    def term(self, place, st):
        l, proj = place
        t = "_%d" % l
        t = st.alias.get(t, t)
        for p in proj:
            if p == "*":
                if t in st.refs:
                    t = st.refs[t]
                else:
                    t = t + "*"
            elif p[0] == "f":
                t = "%s.%s" % (t, p[2] if p[2] is not None else p[1])
            elif p[0] == "dc":
                t = "%s@%d" % (t, p[2])
            else:
                return None
            t = st.alias.get(t, t)
        return t

    def term_ty(self, t):
        m = re.match(r"^_(\d+)((?:\.\d+)*)$", t)
        if not m:
            return None
        ty = self.lty(int(m.group(1)))
        for idx in [x for x in m.group(2).split(".") if x]:
            if ty.startswith("(") and ty.endswith(")"):
                parts = _split_tuple(ty[1:-1])
                i = int(idx)
                if i < len(parts):
                    ty = parts[i]
                else:
                    return None
            else:
                return None
        return ty

    def op_val(self, op, st):
        """-> int constant, or term string, or None"""
        if op[0] == "const":
            c = op[1]
            if "v" in c and isinstance(c["v"], int):
                return c["v"]
            return None
        if op[0] in ("copy", "move"):
            return self.term(op[1], st)
        return None

    def iv_of(self, v, st):
        if isinstance(v, int):
            return (v, v)
        if v is None:
            return (-INF, INF)
        r = st.iv.get(v)
        if r is not None and v.endswith(".0") and self._is_checked_tuple(v):
            return r
        ty = self.term_ty(v)
        tr = ty_range(ty) if ty else ((0, ISIZE_MAX) if v.startswith("len:") else (-INF, INF))
        if r is None:
            return tr
        return (max(r[0], tr[0]), min(r[1], tr[1]))

    def _is_checked_tuple(self, v):
        m = re.match(r"^_(\d+)\.0$", v)
        return bool(m) and self.lty(int(m.group(1))).endswith(", bool)")

    def propagate(self, st, t, depth=3):
        """push the interval of t one step through the zone facts"""
        if depth == 0 or not isinstance(t, str):
            return
        lo, hi = self.iv_of(t, st)
        for (a, b), k in list(st.le.items()):
            if a == t and lo != -INF:
                # t <= b + k  =>  b >= lo - k
                cb = self.iv_of(b, st)
                if lo - k > cb[0]:
                    st.iv[b] = (lo - k, cb[1])
                    self.propagate(st, b, depth - 1)
            if b == t and hi != INF:
                # a <= t + k  =>  a <= hi + k
                ca = self.iv_of(a, st)
                if hi + k < ca[1]:
                    st.iv[a] = (ca[0], hi + k)
                    self.propagate(st, a, depth - 1)

    # ------------------------------------------------------------------ facts
    def set_iv(self, st, t, lo, hi):
        if t is None or isinstance(t, int):
            return
        cur = self.iv_of(t, st)
        new = (max(lo, cur[0]), min(hi, cur[1]))
        st.iv[t] = new
        if new != cur:
            self.propagate(st, t)

    def add_le(self, st, x, y, k):
        """x <= y + k"""
        if x is None or y is None:
            return
        if isinstance(x, int) and isinstance(y, int):
            return
        if isinstance(y, int):
            self.set_iv(st, x, -INF, y + k)
            return
        if isinstance(x, int):
            self.set_iv(st, y, x - k, INF)
            return
        if x == y:
            return
        cur = st.le.get((x, y))
        if cur is None or k < cur:
            st.le[(x, y)] = k
            # keep intervals consistent with the new relation (one step each way)
            ix, iy = self.iv_of(x, st), self.iv_of(y, st)
            if iy[1] != INF and iy[1] + k < ix[1]:
                st.iv[x] = (ix[0], iy[1] + k)
            if ix[0] != -INF and ix[0] - k > iy[0]:
                st.iv[y] = (ix[0] - k, iy[1])

    def add_eq(self, st, x, y, k=0):
        """x == y + k"""
        self.add_le(st, x, y, k)
        self.add_le(st, y, x, -k)
        if isinstance(x, str) and isinstance(y, str):
            iy = self.iv_of(y, st)
            self.set_iv(st, x, iy[0] + k, iy[1] + k)
            ix = self.iv_of(x, st)
            self.set_iv(st, y, ix[0] - k, ix[1] - k)

    def leq(self, st, x, y, k=0, depth=7, seen=None):
        """is x <= y + k provable?"""
        if x is None or y is None:
            return False
        if x == y:
            return k >= 0
        ix = self.iv_of(x, st)
        iy = self.iv_of(y, st)
        if ix[1] <= iy[0] + k:
            return True
        if isinstance(x, int) or depth == 0:
            return False
        seen = seen or set()
        if x in seen:
            return False
        seen = seen | {x}
        for (a, b), kk in st.le.items():
            if a == x:
                if b == y and kk <= k:
                    return True
                if b not in seen and self.leq(st, b, y, k - kk, depth - 1, seen):
                    return True
        # x = a - b  with  b >= 0  =>  x <= a
        sd = st.subdef.get(x)
        if sd is not None:
            a, bb = sd
            if self.iv_of(bb, st)[0] >= 0 and self.leq(st, a, y, k, depth - 1, seen):
                return True
        return False

    def reach_up(self, st, y, depth=5):
        """all (r, k) with y <= r + k following zone facts (small k only)"""
        out = {y: 0}
        front = [y]
        for _ in range(depth):
            nxt = []
            for x in front:
                for (a, b), k in st.le.items():
                    if a == x:
                        nk = out[x] + k
                        if abs(nk) <= 1 << 20 and (b not in out or nk < out[b]):
                            out[b] = nk
                            nxt.append(b)
            front = nxt
            if not front:
                break
        return list(out.items())

    def equivalents(self, st, t):
        """terms provably equal to t"""
        if not isinstance(t, str):
            return [t]
        res = [t]
        for r, k in self.reach_up(st, t, 4):
            if k == 0 and r != t and self.leq(st, r, t, 0, depth=4):
                res.append(r)
        return res

    def kill(self, st, pref, keep_never_written=True):
        """the place `pref` (and everything below it) may have changed"""
        def hit(t):
            if not isinstance(t, str) or not _mentions(t, pref):
                return False
            if keep_never_written:
                # fields that are never assigned anywhere in the crate keep their facts when only a
                # parent place is written through a call (not when the place itself is assigned)
                rest = (t[4:] if t.startswith("len:") else t)[len(pref):]
                m = re.match(r"^\*?\.([A-Za-z_][A-Za-z_0-9]*)", rest)
                if m and m.group(1) not in self.ctx.written_fields:
                    return False
            return True
        # variable elimination to keep transitive facts
        ins = [(a, k) for (a, b), k in st.le.items() if hit(b) and not hit(a)]
        outs = [(b, k) for (a, b), k in st.le.items() if hit(a) and not hit(b)]
        pairs = {}
        for (a, b), k in st.le.items():
            if hit(a) and not hit(b):
                pairs.setdefault(a, {"out": [], "in": []})["out"].append((b, k))
            if hit(b) and not hit(a):
                pairs.setdefault(b, {"out": [], "in": []})["in"].append((a, k))
        new = []
        for t, d in pairs.items():
            for (a, k1) in d["in"]:
                for (b, k2) in d["out"]:
                    if a != b:
                        new.append((a, b, k1 + k2))
            iv = st.iv.get(t)
            if iv:
                for (a, k1) in d["in"]:
                    if iv[1] != INF:
                        self.set_iv(st, a, -INF, iv[1] + k1)
                for (b, k2) in d["out"]:
                    if iv[0] != -INF:
                        self.set_iv(st, b, iv[0] - k2, INF)
        for d in ("iv", "bools", "variants", "ranges", "subdef", "discr", "iters", "divdef"):
            m = getattr(st, d)
            for key in [k for k in m if hit(k)]:
                del m[key]
        for key in [k for k, v in st.divdef.items() if hit(v[0])]:
            del st.divdef[key]
        for key in [k for k in st.le if hit(k[0]) or hit(k[1])]:
            del st.le[key]
        for a, b, k in new:
            self.add_le(st, a, b, k)
        for key in [k for k in st.cond if hit(k[0])]:
            del st.cond[key]
        for key in list(st.cond):
            st.cond[key] = [f for f in st.cond[key] if not any(hit(x) for x in f[1:] if isinstance(x, str))]
        for key in [k for k, v in st.bools.items() if any(hit(x) for x in v[1:] if isinstance(x, str))]:
            del st.bools[key]
        for key in [k for k, v in st.subdef.items() if any(hit(x) for x in v if isinstance(x, str))]:
            del st.subdef[key]
        for key in [k for k, v in st.discr.items() if hit(v)]:
            del st.discr[key]
        for key in [k for k, v in st.alias.items() if hit(v) or hit(k)]:
            del st.alias[key]
        for key in [k for k, v in st.ranges.items() if any(hit(x) for x in v if isinstance(x, str))]:
            del st.ranges[key]
        for key in [k for k, v in st.iters.items() if any(hit(x[0]) for x in v if isinstance(x[0], str))]:
            del st.iters[key]

    def apply_fact(self, st, f):
        if f[0] == "le":
            self.add_le(st, f[1], f[2], f[3])
        elif f[0] == "iv":
            self.set_iv(st, f[1], f[2], f[3])
        elif f[0] == "variant":
            st.variants[f[1]] = f[2]
            for g in st.cond.get((f[1], f[2]), []):
                if g != f:
                    self.apply_fact(st, g)

    # ------------------------------------------------------------------ join
    def join(self, a, b, widen=False):
        r = State()
        for t in set(a.iv) | set(b.iv):
            x = self.iv_of(t, a)
            y = self.iv_of(t, b)
            lo, hi = min(x[0], y[0]), max(x[1], y[1])
            if widen and t in a.iv and (lo, hi) != a.iv.get(t):
                continue
            r.iv[t] = (lo, hi)
        for key in set(a.le) | set(b.le):
            ka = a.le.get(key)
            kb = b.le.get(key)
            if ka is None:
                ka = self._implied_k(a, key)
            if kb is None:
                kb = self._implied_k(b, key)
            if ka is None or kb is None:
                continue
            k = max(ka, kb)
            if widen and key in a.le and k != a.le[key]:
                continue
            r.le[key] = k
        for d in ("bools", "variants", "alias", "refs", "ranges", "subdef", "discr", "iters", "clos", "divdef"):
            ma, mb, mr = getattr(a, d), getattr(b, d), getattr(r, d)
            for k, v in ma.items():
                if mb.get(k) == v:
                    mr[k] = v
        for k, v in a.cond.items():
            w = b.cond.get(k)
            if w is not None:
                r.cond[k] = [f for f in v if f in w]
        r.mutref = a.mutref | b.mutref
        # short-circuit booleans: when a bool local is the constant false on one side only, everything that holds on
        # the other side is implied by the bool being true
        for x, y in ((a, b), (b, a)):
            for t, iv in x.iv.items():
                if iv == (0, 0) and self.term_ty(t) == "bool" and y.iv.get(t, (0, 1)) != (0, 0):
                    fs = []
                    for key, k in y.le.items():
                        if r.le.get(key) is None or r.le[key] > k:
                            fs.append(("le", key[0], key[1], k))
                    for tt, ivy in y.iv.items():
                        ivr = r.iv.get(tt)
                        if ivr is None or ivr[0] < ivy[0] or ivr[1] > ivy[1]:
                            fs.append(("iv", tt, ivy[0], ivy[1]))
                    if fs:
                        r.cond[(t, 1)] = fs[:60]
        return r

    def _implied_k(self, st, key):
        x, y = key
        ix = self.iv_of(x, st)
        iy = self.iv_of(y, st)
        if ix[1] != INF and iy[0] != -INF and abs(ix[1] - iy[0]) <= 65536:
            return ix[1] - iy[0]
        # search: smallest k among small candidates
        for k in (-2, -1, 0, 1, 2):
            if self.leq(st, x, y, k, depth=3):
                return k
        return None

    # ------------------------------------------------------------------ driver
    def run(self):
        b = self.b
        st0 = State()
        if b.argc >= 1 and re.match(r"^&(mut )?buffer::Buffer<", self.lty(1)) and not getattr(self.ctx, "no_inv_cursor", False):
            self.add_le(st0, "_1*.cursor", "len:_1*.data*", 0)
            self.uses_inv_cursor = True
            self.add_le(st0, "_1*.cursor", "ghost:cursor0", 0)
            self.add_le(st0, "ghost:cursor0", "_1*.cursor", 0)
        self.entry_params(st0)
        self.instates[0] = st0
        work = [0]
        order = {x: i for i, x in enumerate(b.rpo())}
        iters = 0
        while work:
            iters += 1
            if iters > 20000:
                raise RuntimeError("absint did not converge in " + b.path)
            work.sort(key=lambda x: order.get(x, 1 << 30))
            bi = work.pop(0)
            st = self.instates[bi].copy()
            outs = self.exec_block(bi, st)
            for succ, so in outs:
                if so is None:
                    continue
                sb = b.blocks[succ]
                if not sb["stmts"] and sb["term"] and sb["term"]["k"] == "ret":
                    # shared return block: keep one return state per incoming edge (no join)
                    self.ret_by_src[bi] = so
                    self.instates.setdefault(succ, so)
                    continue
                old = self.instates.get(succ)
                if old is None:
                    self.instates[succ] = so
                    work.append(succ) if succ not in work else None
                else:
                    n = self.visits.get(succ, 0) + 1
                    self.visits[succ] = n
                    j = self.join(old, so, widen=(succ in self.loop_heads and n > 3))
                    if not j.same(old):
                        self.instates[succ] = j
                        if succ not in work:
                            work.append(succ)
        return self

    @property
    def ret_states(self):
        return sorted(self.ret_by_src.items())

    def state_before_term(self, bi):
        st = self.instates.get(bi)
        if st is None:
            return None
        st = st.copy()
        for s in self.b.blocks[bi]["stmts"]:
            self.exec_stmt(s, st)
        return st

    def exec_block(self, bi, st):
        blk = self.b.blocks[bi]
        for s in blk["stmts"]:
            self.exec_stmt(s, st)
        t = blk["term"]
        if not t:
            return []
        k = t["k"]
        if k == "goto":
            return [(t["t"], st)]
        if k == "ret":
            self.ret_by_src[bi] = st
            return []
        if k in ("unreach", "resume", "abort"):
            return []
        if k == "drop":
            # dropping a place does not change tracked integer facts
            return [(t["t"], st)]
        if k == "assert":
            self.after_assert(t, st)
            return [(t["t"], st)]
        if k == "switch":
            return self.exec_switch(t, st)
        if k == "call":
            if t["t"] is None:
                return []
            self.exec_call(t, st)
            return [(t["t"], st)]
        return [(s, st.copy()) for s in t.get("succ", [])]

    # ------------------------------------------------------------------ statements
    def exec_stmt(self, s, st):
        if s["k"] == "setdiscr":
            t = self.term(s["lhs"], st)
            if t:
                self.kill(st, t, keep_never_written=False)
                st.variants[t] = s["vidx"]
            return
        if s["k"] != "assign":
            return
        lhs = s["lhs"]
        rv = s["rv"]
        # compute value description before killing lhs (rhs may mention lhs)
        desc = self.eval_rvalue(rv, st, lhs)
        lt = self.term(lhs, st)
        if lhs[1] == []:
            lt = "_%d" % lhs[0]
            st.alias.pop(lt, None)
            st.refs.pop(lt, None)
        if lt is None:
            # write through an untracked projection (index): kill the root local conservatively
            root = "_%d" % lhs[0]
            root = st.alias.get(root, root)
            if lhs[1] and lhs[1][0] == "*" and root in st.refs:
                root = st.refs[root]
            self.kill(st, root, keep_never_written=False)
            return
        self.kill(st, lt, keep_never_written=False)
        if desc is None:
            return
        for d in desc:
            kind = d[0]
            if kind == "eq":
                self.add_eq(st, lt, d[1], d[2])
            elif kind == "iv":
                self.set_iv(st, lt, d[1], d[2])
            elif kind == "le":  # lt <= d1 + k
                self.add_le(st, lt, d[1], d[2])
            elif kind == "ge":  # lt >= d1 + k
                self.add_le(st, d[1], lt, -d[2])
            elif kind == "alias":
                st.alias[lt] = d[1]
            elif kind == "ref":
                st.refs[lt] = d[1]
                if d[2]:
                    st.mutref.add(lt)
            elif kind == "bool":
                st.bools[lt] = d[1]
            elif kind == "sub":
                st.subdef[lt] = (d[1], d[2])
            elif kind == "div":
                st.divdef[lt] = (d[1], d[2])
            elif kind == "discr":
                st.discr[lt] = d[1]
            elif kind == "variant":
                st.variants[lt] = d[1]
            elif kind == "range":
                st.ranges[lt] = (d[1], d[2])
            elif kind == "clos":
                st.clos[lt] = d[1]
            elif kind == "termiv":
                st.iv[d[1]] = (d[2], d[3])
            elif kind == "copyfacts":
                self.copy_facts(st, d[1], lt)
            elif kind == "tuplefacts":
                self._apply_tuple(st, lt, d[1])
            elif kind == "fieldeq":  # lt.<field> == value
                ft = "%s%s" % (lt, d[1])
                if isinstance(d[2], int):
                    self.set_iv(st, ft, d[2], d[2])
                elif d[2] is not None:
                    self.add_eq(st, ft, d[2], 0)
                    if d[2] in st.subdef:
                        st.subdef[ft] = st.subdef[d[2]]

    def eval_rvalue(self, rv, st, lhs):
        k = rv[0]
        lty = self.lty(lhs[0]) if lhs[1] == [] else None
        if k == "use":
            op = rv[1]
            if op[0] == "const" and "static" in op[1]:
                tt = "static:" + op[1]["static"]
                out = [("ref", tt, False)]
                val = self.ctx.crate.consts.get(op[1]["static"])
                if isinstance(val, int):
                    out.append(("termiv", tt, val, val))
                return out
            v = self.op_val(op, st)
            if isinstance(v, int):
                return [("iv", v, v)]
            if v is None:
                return None
            if lty is not None and is_int_ty(lty):
                out = [("eq", v, 0)]
                if v in st.subdef:
                    out.append(("sub",) + st.subdef[v])
                return out
            if lty == "bool" and v in st.bools:
                return [("bool", st.bools[v])]
            if lhs[1] == []:
                if lty is not None and lty.startswith("&"):
                    # copying a reference: same referent
                    if v in st.refs:
                        return [("ref", st.refs[v], v in st.mutref)]
                    return [("alias", v)]
                # compound value moved/copied into a local: its facts move with it
                return [("copyfacts", v)]
            return [("eq", v, 0)]
        if k == "ref":
            t = self.term(rv[2], st)
            if t is None:
                return None
            return [("ref", t, rv[1] == "mut")]
        if k == "cast":
            ck, op, ty = rv[1], rv[2], rv[3]
            v = self.op_val(op, st)
            if ck.startswith("IntToInt") and is_int_ty(ty):
                iv = self.iv_of(v, st)
                tr = ty_range(ty)
                if iv[0] >= tr[0] and iv[1] <= tr[1]:
                    out = [("iv", iv[0], iv[1])]
                    if isinstance(v, str):
                        out.append(("eq", v, 0))
                    return out
                return [("iv", tr[0], tr[1])]
            if ck.startswith("PointerCoercion") or ck.startswith("PtrToPtr"):
                # unsizing &[T; N] -> &[T] etc.: same container
                if isinstance(v, str):
                    return [("alias", v)]
            return None
        if k == "bin":
            return self.eval_bin(rv[1], rv[2], rv[3], st, lhs)
        if k == "un":
            op, a = rv[1], rv[2]
            v = self.op_val(a, st)
            if op == "PtrMetadata":
                c = self.container(a, st)
                if c:
                    n = self.array_len(c)
                    if n is not None:
                        return [("iv", n, n)]
                    return [("eq", "len:" + c, 0), ("iv", 0, ISIZE_MAX)]
                return [("iv", 0, ISIZE_MAX)]
            if op == "Not":
                if isinstance(v, str) and v in st.bools:
                    o, x, y = st.bools[v]
                    if o == "Variant":
                        return [("bool", ("Variant", x, 1 - y))]
                    neg = {"Lt": "Ge", "Ge": "Lt", "Le": "Gt", "Gt": "Le", "Eq": "Ne", "Ne": "Eq"}[o]
                    return [("bool", (neg, x, y))]
                if lty and is_int_ty(lty) and lty != "bool":
                    # integer bitwise not: only the type range is known
                    return None
                return None
            if op == "Neg":
                iv = self.iv_of(v, st)
                return [("iv", -iv[1], -iv[0])]
            return None
        if k == "discr":
            t = self.term(rv[1], st)
            if t:
                out = [("discr", t)]
                if t in st.variants:
                    out.append(("iv", st.variants[t], st.variants[t]))
                return out
            return None
        if k == "agg":
            kd = rv[1]
            ops = rv[2]
            if kd["k"] == "adt":
                out = []
                short = kd["path"].split("::")[-1]
                ad_is_enum = kd["path"] in ("core::option::Option", "core::result::Result", "core::ops::control_flow::ControlFlow",
                                            "core::cmp::Ordering") or kd.get("variant") != short
                if ad_is_enum:
                    out.append(("variant", kd["vidx"]))
                    for i, o in enumerate(ops):
                        out.append(("fieldeq", "@%d.%d" % (kd["vidx"], i), self.op_val(o, st)))
                else:
                    for fname, o in zip(kd["fields"], ops):
                        out.append(("fieldeq", ".%s" % fname, self.op_val(o, st)))
                    if short in ("Range",) and len(ops) == 2:
                        out.append(("range", self.op_val(ops[0], st), self.op_val(ops[1], st)))
                return out
            if kd["k"] == "tuple":
                return [("fieldeq", ".%d" % i, self.op_val(o, st)) for i, o in enumerate(ops)]
            if kd["k"] == "closure":
                # places the closure can write: targets of captured &mut references
                caps = []
                for o in ops:
                    if o[0] in ("copy", "move") and not o[1][1] and self.lty(o[1][0]).startswith("&mut "):
                        v = self.op_val(o, st)
                        tg = st.refs.get(v) if isinstance(v, str) else None
                        caps.append(tg if tg else "?")
                return [("clos", tuple(caps))]
            return None
        return None

    def eval_bin(self, op, a, b, st, lhs):
        va, vb = self.op_val(a, st), self.op_val(b, st)
        ia, ib = self.iv_of(va, st), self.iv_of(vb, st)
        checked = op.endswith("WithOverflow")
        base = op.replace("WithOverflow", "")
        if base in ("Lt", "Le", "Gt", "Ge", "Eq", "Ne"):
            return [("bool", (base, va, vb))]
        res = None
        rel = []
        if base == "Add":
            res = (ia[0] + ib[0], ia[1] + ib[1])
            if isinstance(vb, int) and isinstance(va, str):
                rel.append(("eq", va, vb))
            elif isinstance(va, int) and isinstance(vb, str):
                rel.append(("eq", vb, va))
            else:
                if isinstance(va, str) and ib[0] >= 0:
                    rel.append(("ge", va, 0))
                if isinstance(vb, str) and ia[0] >= 0:
                    rel.append(("ge", vb, 0))
                # sum bound through  y <= r + k  with  r = A - x   =>  x + y <= A + k
                for x, y in ((va, vb), (vb, va)):
                    if not (isinstance(x, str) and isinstance(y, str)):
                        continue
                    for r, kk in self.reach_up(st, y):
                        sd = st.subdef.get(r)
                        if not sd or not isinstance(sd[1], str):
                            continue
                        if sd[1] == x or (self.leq(st, x, sd[1], 0) and self.leq(st, sd[1], x, 0)):
                            rel.append(("le", sd[0], kk))
        elif base == "Sub":
            res = (ia[0] - ib[1], ia[1] - ib[0])
            if isinstance(vb, int) and isinstance(va, str):
                rel.append(("eq", va, -vb))
            elif isinstance(va, str) and ib[0] >= 0:
                rel.append(("le", va, 0))
            if va is not None and vb is not None:
                rel.append(("sub", va, vb))
        elif base == "Mul":
            # (i <= r + k) and r = A / c  =>  i * c <= A + k * c
            for x, cst in ((va, vb), (vb, va)):
                if isinstance(x, str) and isinstance(cst, int) and cst > 0:
                    for r, kk in self.reach_up(st, x):
                        dd = st.divdef.get(r)
                        if dd and dd[1] == cst:
                            rel.append(("le", dd[0], kk * cst))
            c = [ia[0] * ib[0], ia[0] * ib[1], ia[1] * ib[0], ia[1] * ib[1]] if INF not in (abs(ia[0]), abs(ia[1]), abs(ib[0]), abs(ib[1])) else None
            if c:
                res = (min(c), max(c))
        elif base == "Div":
            if isinstance(vb, int) and vb > 0 and ia[0] >= 0:
                res = (ia[0] // vb, ia[1] // vb if ia[1] != INF else INF)
                if isinstance(va, str):
                    rel.append(("le", va, 0))
                    rel.append(("div", va, vb))
        elif base == "Rem":
            if ib[0] > 0 and ib[1] != INF and ia[0] >= 0:
                res = (0, min(ib[1] - 1, ia[1]))
                if isinstance(va, str):
                    rel.append(("le", va, 0))
        elif base == "BitAnd":
            cands = [x[1] for x in (ia, ib) if x[0] >= 0 and x[1] != INF]
            if cands:
                res = (0, min(cands))
        elif base == "BitOr" or base == "BitXor":
            if ia[0] >= 0 and ib[0] >= 0 and ia[1] != INF and ib[1] != INF:
                bits = max(int(ia[1]).bit_length(), int(ib[1]).bit_length())
                res = (0, (1 << bits) - 1)
        elif base == "Shr":
            if ia[0] >= 0 and ib[0] >= 0 and ib[0] != INF and ia[1] != INF:
                res = (ia[0] >> int(min(ib[1], 200)) if ib[1] != INF else 0, ia[1] >> int(ib[0]))
        elif base == "Shl":
            if ia[0] >= 0 and ia[1] != INF and ib[1] != INF and ib[0] >= 0 and ib[1] < 128:
                res = (ia[0] << int(ib[0]), ia[1] << int(ib[1]))
        out = []
        # destination: plain local (unchecked) or tuple (checked: field .0 holds the result once the
        # following Assert has passed; before that the mathematically exact value is what we track)
        if checked:
            for r in rel:
                if r[0] == "sub":
                    out.append(("tuple0sub", r[1], r[2]))
                else:
                    out.append(("tuple0", r))
            if res is not None:
                out.append(("tuple0", ("iv", res[0], res[1])))
            return self._checked_desc(out, lhs, st)
        if res is not None:
            lty = self.lty(lhs[0]) if lhs[1] == [] else None
            tr = ty_range(lty) if lty else (-INF, INF)
            if res[0] >= tr[0] and res[1] <= tr[1]:
                out.append(("iv", res[0], res[1]))
                out.extend(rel)
            # else: may wrap -> type range only
        return out

    def _checked_desc(self, out, lhs, st):
        # store facts under "<lhs>.0"; exec_stmt applies descs to lt, so emit fieldeq-like entries
        res = []
        self._pending_tuple = (lhs, out)
        return [("tuplefacts", out)]

    # tuple facts are applied in exec_stmt through this hook
    def _apply_tuple(self, st, lt, out):
        f0 = lt + ".0"
        for o in out:
            if o[0] == "tuple0":
                r = o[1]
                if r[0] == "eq":
                    # exact (unwrapped) result == r1 + r2; intervals are only tied after the Assert
                    self.add_le(st, f0, r[1], r[2])
                    self.add_le(st, r[1], f0, -r[2])
                elif r[0] == "iv":
                    st.iv[f0] = (r[1], r[2])
                elif r[0] == "le":
                    self.add_le(st, f0, r[1], r[2])
                elif r[0] == "ge":
                    self.add_le(st, r[1], f0, -r[2])
            elif o[0] == "tuple0sub":
                st.subdef[f0] = (o[1], o[2])

    def after_assert(self, t, st):
        """on the success edge of an overflow Assert the checked result fits its type"""
        m = t["msg"]
        if m["k"] != "Overflow":
            return
        cond = t["cond"]
        if cond[0] not in ("copy", "move"):
            return
        tl = self.term(cond[1], st)
        if not tl or not tl.endswith(".1"):
            return
        f0 = tl[:-2] + ".0"
        ty = self.term_ty(f0)
        if not ty or ty not in INT_RANGES:
            return
        tr = ty_range(ty)
        cur = st.iv.get(f0, (-INF, INF))
        st.iv[f0] = (max(cur[0], tr[0]), min(cur[1], tr[1]))
        self.propagate(st, f0)

    # ------------------------------------------------------------------ containers / iterators
    def container(self, op, st, depth=6):
        """canonical term of the container a (reference) operand views, following length-preserving views"""
        if op[0] not in ("copy", "move"):
            return None
        pl = op[1]
        t = self.term(pl, st)
        if t is None:
            return None
        # `t` is a reference-typed place: the container is what it points to
        if t in st.refs:
            return st.refs[t]
        return t + "*"

    def array_len(self, c):
        """length of an array-typed container place `_N` / `_N*` from its declared type"""
        m = re.match(r"^_(\d+)(\*?)$", c)
        if not m:
            return None
        ty = self.lty(int(m.group(1)))
        if m.group(2):
            ty = re.sub(r"^&(mut )?", "", ty) if ty.startswith("&") else None
        if ty:
            mm = re.match(r"^\[.*; (\d+)\]$", ty)
            if mm:
                return int(mm.group(1))
        return None

    def entry_params(self, st0):
        """closed-world parameter summaries: hull of the argument intervals over all call sites of a
        non-exported function (constants or values bounded in the caller)"""
        b = self.b
        f = b.fn
        if (f.get("exported") and not self.ctx.closed_world) or self.depth > 2:
            return
        sites = self.ctx.call_sites(f)
        if not sites:
            return
        for i in range(1, b.argc + 1):
            ty = self.lty(i)
            is_int = ty in INT_RANGES
            m = re.match(r"^(?:std::option::|core::option::)?Option<(\w+)>$", ty)
            is_opt_int = bool(m) and m.group(1) in INT_RANGES
            if not (is_int or is_opt_int):
                continue
            lo, hi = INF, -INF
            ok = True
            n_none = 0
            for (cpath, bb, args) in sites:
                if i - 1 >= len(args):
                    ok = False
                    break
                a = args[i - 1]
                if cpath == b.path:
                    # self call site (a forwarding wrapper seen through trait dispatch): forwarding the own parameter
                    # unchanged adds no new values
                    src = a
                    hops = 0
                    while src[0] in ("copy", "move") and not src[1][1] and hops < 4:
                        sd = b.single_def(src[1][0])
                        if src[1][0] == i or not sd or sd[2][0] != "use":
                            break
                        src = sd[2][1]
                        hops += 1
                    if src[0] in ("copy", "move") and src[1] == [i, []]:
                        continue
                if a[0] == "const" and "v" in a[1] and is_int:
                    lo, hi = min(lo, a[1]["v"]), max(hi, a[1]["v"])
                    continue
                cit = self.ctx.caller_interp(cpath, b.path)
                if cit is None:
                    ok = False
                    break
                cst = cit.state_before_term(bb)
                if cst is None:
                    continue  # unreachable call site
                v = cit.op_val(a, cst)
                if is_int:
                    iv = cit.iv_of(v, cst)
                else:
                    if not isinstance(v, str):
                        ok = False
                        break
                    var = cst.variants.get(v)
                    if var == 0:
                        n_none += 1
                        continue  # None: payload never read
                    if var != 1:
                        # unknown variant: fine if the payload is bounded whenever it is Some (forwarded parameter)
                        if (v + "@1.0") not in cst.iv:
                            ok = False
                            break
                        n_none += 1
                    iv = cit.iv_of(v + "@1.0", cst)
                lo, hi = min(lo, iv[0]), max(hi, iv[1])
            if ok and lo <= hi and (lo != -INF or hi != INF):
                t = "_%d" % i if is_int else "_%d@1.0" % i
                st0.iv[t] = (lo, hi)
            elif ok and is_opt_int and n_none and lo > hi:
                st0.variants["_%d" % i] = 0  # every call site passes None

    # ------------------------------------------------------------------ switch
    def exec_switch(self, t, st):
        d = t["d"]
        v = self.op_val(d, st)
        outs = []
        targets = t["vals"]
        other = t["else"]
        cmp = st.bools.get(v) if isinstance(v, str) else None
        disc = st.discr.get(v) if isinstance(v, str) else None
        known = self.iv_of(v, st)
        if isinstance(v, str) and t.get("dty"):
            # the operand's type is on the terminator: terms whose type is not derivable (enum payloads) still get its range
            tr = ty_range(t["dty"])
            if tr:
                known = (max(known[0], tr[0]), min(known[1], tr[1]))
        for val, bb in targets:
            if known[0] > val or known[1] < val:
                outs.append((bb, None))
                continue
            s2 = st.copy()
            if cmp is not None:
                self.assume_cmp(s2, cmp, val != 0)
            if disc is not None:
                dv = val
                # Ordering::Less has discriminant -1 stored as 255 (i8) in switch values
                self.apply_fact(s2, ("variant", disc, dv))
            if isinstance(v, str):
                self.set_iv(s2, v, val, val)
                if val == 1:
                    for g in s2.cond.get((v, 1), []):
                        self.apply_fact(s2, g)
            if not self.consistent(s2):
                outs.append((bb, None))
                continue
            outs.append((bb, s2))
        # otherwise edge
        s3 = st.copy()
        feasible = True
        if cmp is not None and len(targets) == 1:
            self.assume_cmp(s3, cmp, targets[0][0] == 0)
        if isinstance(v, str) and len(targets) == 1 and targets[0][0] == 0 and self.term_ty(v) == "bool":
            for g in s3.cond.get((v, 1), []):
                self.apply_fact(s3, g)
        if disc is not None:
            vals = {x[0] for x in targets}
            # a two-variant enum with one listed value: the other one is known
            cand = [c for c in (0, 1) if c not in vals]
            if len(cand) == 1 and self._two_variant(disc):
                self.apply_fact(s3, ("variant", disc, cand[0]))
        if isinstance(v, str):
            lo, hi = known
            vals = sorted(x[0] for x in targets)
            while vals and vals[0] == lo:
                lo += 1
                vals.pop(0)
            while vals and vals[-1] == hi:
                hi -= 1
                vals.pop()
            if lo > hi:
                feasible = False
            else:
                self.set_iv(s3, v, lo, hi)
                # the scrutinee is often a temporary copy of a place that is read again in the arm
                # (`match x { 0 => .., n => f(n) }`): carry the refinement to every term known equal to it
                for (a_, b_), k_ in list(s3.le.items()):
                    if a_ == v and k_ == 0 and s3.le.get((b_, a_)) == 0:
                        l2, h2 = self.iv_of(b_, s3)
                        self.set_iv(s3, b_, max(l2, lo), min(h2, hi))
        if feasible and not self.consistent(s3):
            feasible = False
        outs.append((other, s3 if feasible else None))
        return outs

    def _two_variant(self, term):
        return True

    def consistent(self, st):
        for t, (lo, hi) in st.iv.items():
            if lo > hi:
                return False
        for (a, b), k in st.le.items():
            ia, ib = self.iv_of(a, st), self.iv_of(b, st)
            if ia[0] > ib[1] + k:
                return False
        return True

    def assume_cmp(self, st, cmp, truth):
        op, x, y = cmp
        if op == "Variant":
            # x: enum place term, y: variant index tested
            self.apply_fact(st, ("variant", x, y if truth else 1 - y))
            return
        if not truth:
            op = {"Lt": "Ge", "Ge": "Lt", "Le": "Gt", "Gt": "Le", "Eq": "Ne", "Ne": "Eq"}[op]
        if x is None or y is None:
            return
        if op == "Lt":
            self.add_le(st, x, y, -1)
        elif op == "Le":
            self.add_le(st, x, y, 0)
        elif op == "Gt":
            self.add_le(st, y, x, -1)
        elif op == "Ge":
            self.add_le(st, y, x, 0)
        elif op == "Eq":
            self.add_le(st, x, y, 0)
            self.add_le(st, y, x, 0)
            if isinstance(x, str) and isinstance(y, str):
                self.add_eq(st, x, y, 0)
        elif op == "Ne":
            # only useful against interval end points
            for a, b in ((x, y), (y, x)):
                if isinstance(a, str) and isinstance(b, int):
                    lo, hi = self.iv_of(a, st)
                    if lo == b:
                        self.set_iv(st, a, lo + 1, hi)
                    elif hi == b:
                        self.set_iv(st, a, lo, hi - 1)
        # tighten intervals through the new relation
        for a, b, k in ((x, y, {"Lt": -1, "Le": 0}.get(op)), (y, x, {"Gt": -1, "Ge": 0}.get(op))):
            if k is None:
                continue
            if isinstance(a, str):
                self.set_iv(st, a, -INF, self.iv_of(b, st)[1] + k)
            if isinstance(b, str):
                self.set_iv(st, b, self.iv_of(a, st)[0] - k, INF)

    # ------------------------------------------------------------------ calls
    def exec_call(self, t, st):
        dest = t["dest"]
        args = t["args"]
        dt = self.term(dest, st) if dest[1] else "_%d" % dest[0]
        pre_range = None
        pre_iters = None
        if "fn" in t and args:
            k0 = callee_key(t["fn"]).split("@")[0]
            if k0.endswith("::next"):
                itt = self.container(args[0], st)
                pre_range = (itt, st.ranges.get(itt)) if itt else None
            if k0.endswith("::position"):
                itt = self.container(args[0], st)
                v00 = self.op_val(args[0], st)
                pre_iters = st.iters.get(itt) or (st.iters.get(v00) if isinstance(v00, str) else None)
        pre_variant = None
        if "fn" in t and args and callee_key(t["fn"]).split("@")[0] in ("Option::as_mut", "Option::as_ref", "Option::as_deref", "Option::as_deref_mut"):
            c_ = self.container(args[0], st)
            pre_variant = st.variants.get(c_) if c_ else None
        pre_len_ge1 = False
        if "fn" in t and args and callee_key(t["fn"]).split("@")[0] == "Vec::pop":
            c_ = self.container(args[0], st)
            pre_len_ge1 = bool(c_) and self.iv_of("len:" + c_, st)[0] >= 1
        dec = None
        if "fn" in t and path_is_decode_string(t["fn"]) and len(args) >= 2:
            # decoder contract (checked per impl by C17): *cursor advances by at most data.len()
            x = st.refs.get(self.op_val(args[1], st)) if isinstance(self.op_val(args[1], st), str) else None
            c0 = self.container(args[0], st)
            sd = st.subdef.get("len:" + c0) if c0 else None
            if x and sd and isinstance(sd[1], str) and self.leq(st, x, sd[1], 0):
                dec = (x, sd[0])
        # effects on arguments: anything reachable through a &mut argument may change
        self.call_kills(t, st)
        if dec:
            self.add_le(st, dec[0], dec[1], 0)
        if dest[1] == []:
            st.alias.pop(dt, None)
            st.refs.pop(dt, None)
        if dt is not None:
            self.kill(st, dt, keep_never_written=False)
        else:
            self.kill(st, "_%d" % dest[0], keep_never_written=False)
            return
        if "fn" not in t:
            return
        fn = t["fn"]
        key = callee_key(fn)
        dty = self.lty(dest[0]) if dest[1] == [] else None
        a0 = args[0] if args else None
        v0 = self.op_val(a0, st) if a0 else None
        v1 = self.op_val(args[1], st) if len(args) > 1 else None
        base = key.split("@")[0]
        meth = base.split("::")[-1]

        if base in LEN_FNS or (meth == "len" and base.split("::")[0] in ("Vec", "slice", "str", "String", "HashMap", "HashSet", "BTreeMap")):
            c = self.container(a0, st)
            esz = [x for x in (fn.get("garg_sizes") or []) if isinstance(x, int) and x > 0]
            hi = ISIZE_MAX // esz[0] if (esz and base.startswith(("Vec::", "slice::"))) else ISIZE_MAX
            if c:
                self.add_eq(st, dt, "len:" + c, 0)
                self.set_iv(st, "len:" + c, 0, hi)
            self.set_iv(st, dt, 0, hi)
            return
        if base in EMPTY_FNS:
            c = self.container(a0, st)
            if c:
                st.bools[dt] = ("Eq", "len:" + c, 0)
            return
        if base in VIEW_FNS or (meth in ("deref", "deref_mut", "as_ref", "as_slice", "as_bytes", "as_str") and key.startswith(("Deref", "DerefMut", "AsRef", "Vec", "String", "str"))):
            c = self.container(a0, st)
            if c:
                st.refs[dt] = c
                if a0[0] in ("copy", "move") and not a0[1][1]:
                    mm = re.match(r"^&(?:mut )?\[.*; (\d+)\]$", self.lty(a0[1][0]))
                    if mm:
                        self.set_iv(st, "len:" + c, int(mm.group(1)), int(mm.group(1)))
            return
        if meth in ("iter", "iter_mut") and base.split("::")[0] in ("slice", "Vec"):
            c = self.container(a0, st)
            if c:
                st.iters[dt] = [("len:" + c, 0)]
            return
        if base == "IntoIterator::into_iter":
            if isinstance(v0, str):
                if v0 in st.ranges:
                    st.ranges[dt] = st.ranges[v0]
                if v0 in st.iters:
                    st.iters[dt] = st.iters[v0]
            return
        if base == "Iterator::skip":
            if isinstance(v0, str) and v0 in st.iters and isinstance(v1, int):
                st.iters[dt] = [(b, k - v1) for b, k in st.iters[v0]]
            return
        if base == "Iterator::take":
            bs = list(st.iters.get(v0, [])) if isinstance(v0, str) else []
            if v1 is not None:
                bs.append((v1, 0))
            if bs:
                st.iters[dt] = bs
            return
        if base in ("Iterator::position", "Iter::position") or (meth == "position"):
            # payload < count of the iterator
            itv = pre_iters
            p = dt + "@1.0"
            self.set_iv(st, p, 0, ISIZE_MAX)
            for b, k in (itv or []):
                self.add_le(st, p, b, k - 1)
            return
        if base in ("Option::unwrap_or",):
            p = (v0 + "@1.0") if isinstance(v0, str) else None
            var = st.variants.get(v0) if isinstance(v0, str) else None
            if var == 0:
                self._hull_into(st, dt, [v1])
            elif var == 1:
                self._hull_into(st, dt, [p])
            else:
                self._hull_into(st, dt, [p, v1])
            return
        if base == "Option::or" and isinstance(v0, str) and isinstance(v1, str):
            va_, vb_ = st.variants.get(v0), st.variants.get(v1)
            if vb_ == 1:
                st.variants[dt] = 1
                if va_ == 0:
                    self._hull_into(st, dt + "@1.0", [v1 + "@1.0"])
                elif va_ == 1:
                    self._hull_into(st, dt + "@1.0", [v0 + "@1.0"])
                else:
                    self._hull_into(st, dt + "@1.0", [v0 + "@1.0", v1 + "@1.0"])
            return
        if base in ("Option::map_or", "Option::map_or_else", "Option::unwrap_or_else", "Option::unwrap_or_default"):
            return
        if base in ("Ord::min", "cmp::min"):
            for v in (v0, v1):
                self.add_le(st, dt, v, 0)
            i0, i1 = self.iv_of(v0, st), self.iv_of(v1, st)
            self.set_iv(st, dt, min(i0[0], i1[0]), min(i0[1], i1[1]))
            return
        if base in ("Ord::max", "cmp::max"):
            for v in (v0, v1):
                self.add_le(st, v, dt, 0)
            i0, i1 = self.iv_of(v0, st), self.iv_of(v1, st)
            self.set_iv(st, dt, max(i0[0], i1[0]), max(i0[1], i1[1]))
            return
        if meth == "saturating_sub" and base.split("::")[0] in INT_RANGES:
            i0, i1 = self.iv_of(v0, st), self.iv_of(v1, st)
            tr = ty_range(base.split("::")[0])
            self.set_iv(st, dt, max(tr[0], i0[0] - i1[1]), max(tr[0], i0[1] - i1[0]))
            if i1[0] >= 0:
                self.add_le(st, dt, v0, 0)
            return
        if meth == "saturating_add" and base.split("::")[0] in INT_RANGES:
            i0, i1 = self.iv_of(v0, st), self.iv_of(v1, st)
            tr = ty_range(base.split("::")[0])
            self.set_iv(st, dt, min(tr[1], i0[0] + i1[0]), min(tr[1], i0[1] + i1[1]))
            return
        if meth in ("checked_add", "checked_sub", "checked_mul") and base.split("::")[0] in INT_RANGES:
            p = dt + "@1.0"
            i0, i1 = self.iv_of(v0, st), self.iv_of(v1, st)
            if meth == "checked_add":
                self.set_iv(st, p, i0[0] + i1[0], i0[1] + i1[1])
                if isinstance(v1, int):
                    self.add_eq(st, p, v0, v1)
            elif meth == "checked_sub":
                self.set_iv(st, p, i0[0] - i1[1], i0[1] - i1[0])
                if isinstance(v1, int):
                    self.add_eq(st, p, v0, -v1)
                elif i1[0] >= 0:
                    self.add_le(st, p, v0, 0)
            return
        if meth in ("wrapping_add", "wrapping_sub", "wrapping_mul", "rotate_right", "rotate_left"):
            return
        if base in ("From::from", "Into::into") or key.startswith(("From::from@", "Into::into@")):
            if dty and is_int_ty(dty):
                iv = self.iv_of(v0, st)
                tr = ty_range(dty)
                if iv[0] >= tr[0] and iv[1] <= tr[1] and isinstance(v0, str) and self.term_ty(v0) in INT_RANGES:
                    self.add_eq(st, dt, v0, 0)
            return
        if key.startswith("TryInto::try_into@") or key.startswith("TryFrom::try_from@"):
            src_ty = self.term_ty(v0) if isinstance(v0, str) else None
            if isinstance(v0, int) or (src_ty in INT_RANGES):
                self.add_eq(st, dt + "@0.0", v0, 0) if isinstance(v0, str) else None
            return
        if (key.startswith("Index::index@") or key.startswith("IndexMut::index_mut@")) and "Range" in key and len(args) > 1:
            parts = key.split("@")
            if parts[1] not in ("str", "String"):
                c = self.container(a0, st)
                rt = v1
                if c and isinstance(rt, str):
                    self._make_slice(st, dt, c, rt, parts[2])
            return
        if base in ("slice::get", "Vec::get", "slice::get_mut") and "Range" in (fn.get("pretty") or "") and len(args) > 1:
            c = self.container(a0, st)
            rt = v1
            if c and isinstance(rt, str):
                kind = key.split("::<")[-1] if "::<" in key else key
                rk = [x for x in ("RangeFrom", "RangeToInclusive", "RangeTo", "RangeInclusive", "Range") if x in (fn.get("pretty") or "")]
                if rk:
                    s_, e_ = self._range_vals(st, rt)
                    ln = "len:" + c
                    if rk[0] == "Range":
                        st.cond.setdefault((dt, 1), []).extend([("le", e_, ln, 0), ("le", s_, e_, 0)])
                    elif rk[0] == "RangeTo":
                        st.cond.setdefault((dt, 1), []).append(("le", e_, ln, 0))
                    elif rk[0] == "RangeFrom":
                        st.cond.setdefault((dt, 1), []).append(("le", s_, ln, 0))
                    self._make_slice(st, dt + "@1.0", c, rt, rk[0] + "<")
            return
        if path_is_decode_string(fn) and len(args) >= 2:
            return  # handled in exec_call prologue (needs the pre-call state)
        if base in ("slice::first", "slice::last", "Vec::first", "Vec::last", "slice::first_mut", "slice::last_mut"):
            c = self.container(a0, st)
            if c:
                st.cond.setdefault((dt, 1), []).append(("le", 1, "len:" + c, 0))
                st.cond.setdefault((dt, 0), []).append(("le", "len:" + c, 0, 0))
            return
        if base in ("slice::get", "Vec::get", "slice::get_mut") and "Range" not in (fn.get("pretty") or ""):
            c = self.container(a0, st)
            if c and v1 is not None:
                st.cond.setdefault((dt, 1), []).append(("le", v1, "len:" + c, -1))
                st.cond.setdefault((dt, 0), []).append(("le", "len:" + c, v1, 0))
            return
        if base == "Vec::pop":
            c = self.container(a0, st) if a0 else None
            if pre_len_ge1:
                st.variants[dt] = 1
            return
        if base in ("Option::as_mut", "Option::as_ref", "Option::as_deref", "Option::as_deref_mut"):
            if pre_variant is not None:
                st.variants[dt] = pre_variant
            return
        if base in ("Option::is_some", "Option::is_none", "Result::is_ok", "Result::is_err"):
            if a0 and a0[0] in ("copy", "move"):
                c = self.container(a0, st)
                if c:
                    want = {"is_some": 1, "is_none": 0, "is_ok": 0, "is_err": 1}[meth]
                    st.bools[dt] = ("Variant", c, want)
            return
        if key.startswith("Try::branch@"):
            if isinstance(v0, str):
                is_opt = "Option" in key.split("@", 1)[1][:12]
                okv = 1 if is_opt else 0
                errv = 0 if is_opt else 1
                # Continue(0) carries the Ok/Some payload
                self._rename_facts(st, "%s@%d.0" % (v0, okv), dt + "@0.0")
                st.cond.setdefault((dt, 0), []).append(("variant", v0, okv))
                st.cond.setdefault((dt, 1), []).append(("variant", v0, errv))
                for f in st.cond.get((v0, okv), []):
                    st.cond[(dt, 0)].append(f)
                if st.variants.get(v0) == okv:
                    st.variants[dt] = 0
                elif st.variants.get(v0) == errv:
                    st.variants[dt] = 1
            return
        if base in ("Option::ok_or", "Option::ok_or_else"):
            if isinstance(v0, str):
                self._rename_facts(st, v0 + "@1.0", dt + "@0.0")
                for f in st.cond.get((v0, 1), []):
                    st.cond.setdefault((dt, 0), []).append(f)
                st.cond.setdefault((dt, 0), []).append(("variant", v0, 1))
                st.cond.setdefault((dt, 1), []).append(("variant", v0, 0))
            return
        if base in ("Result::map_err",):
            if isinstance(v0, str):
                self._rename_facts(st, v0 + "@0.0", dt + "@0.0")
                for f in st.cond.get((v0, 0), []):
                    st.cond.setdefault((dt, 0), []).append(f)
                st.cond.setdefault((dt, 0), []).append(("variant", v0, 0))
                st.cond.setdefault((dt, 1), []).append(("variant", v0, 1))
            return
        if base in ("Result::ok",):
            if isinstance(v0, str):
                self._rename_facts(st, v0 + "@0.0", dt + "@1.0")
                for f in st.cond.get((v0, 0), []):
                    st.cond.setdefault((dt, 1), []).append(f)
            return
        if base in ("Option::copied", "Option::cloned"):
            return
        if base in ("Iterator::next",) or meth == "next":
            # Range<T>::next
            it, rg = pre_range if pre_range else (None, None)
            if rg:
                s, e = rg
                p = dt + "@1.0"
                if s is not None:
                    self.add_le(st, s, p, 0)
                if e is not None:
                    self.add_le(st, p, e, -1)
                # the iterator's fields change; keep the recorded (initial start, end) bounds
                st.ranges[it] = rg
            return
        if base in ("Ord::cmp", "PartialOrd::partial_cmp") or meth == "cmp":
            x = self.container(a0, st) if a0 else None
            y = self.container(args[1], st) if len(args) > 1 else None
            if x and y:
                x, y = self._deref_val(st, x), self._deref_val(st, y)
                # Ordering: Less = -1 (255), Equal = 0, Greater = 1
                st.cond.setdefault((dt, 255), []).append(("le", x, y, -1))
                st.cond.setdefault((dt, -1), []).append(("le", x, y, -1))
                st.cond.setdefault((dt, 0), []).extend([("le", x, y, 0), ("le", y, x, 0)])
                st.cond.setdefault((dt, 1), []).append(("le", y, x, -1))
            return
        if key.startswith("Iterator::collect@Split") or key.startswith("Iterator::collect@SplitN") or key.startswith("Iterator::collect@Map<Split<"):
            # str::split always yields at least one item
            self.set_iv(st, "len:" + dt, 1, ISIZE_MAX)
            return
        if base == "size_of" or key.endswith("mem::size_of"):
            sz = (fn.get("garg_sizes") or [None])[0]
            if isinstance(sz, int):
                self.set_iv(st, dt, sz, sz)
            return
        if meth == "recv_from":
            # Ok((n, addr)): n <= buf.len()
            c = self.container(args[1], st) if len(args) > 1 else None
            if c:
                self.add_le(st, dt + "@0.0.0", "len:" + c, 0)
            return
        if base in ("Vec::new", "String::new", "HashMap::new"):
            self.set_iv(st, "len:" + dt, 0, 0)
            return
        # local callee: use the inferred summary
        path = fn.get("res") or fn["raw"]
        if fn.get("local") and fn.get("res"):
            summ = self.ctx.summary(path, self.depth)
            if summ:
                self.apply_summary(st, summ, dt, args)
            return

    def _deref_val(self, st, t):
        return t

    def _range_vals(self, st, rt):
        def fld(name):
            t = "%s.%s" % (rt, name)
            iv = st.iv.get(t)
            if iv and iv[0] == iv[1]:
                return iv[0]
            return t
        return fld("start"), fld("end")

    def _make_slice(self, st, dt, c, rt, rkind):
        """dt is a reference to a sub-slice of container c selected by the range value rt"""
        sl = "slice:" + dt
        st.refs[dt] = sl
        s_, e_ = self._range_vals(st, rt)
        ln, lc = "len:" + sl, "len:" + c
        self.set_iv(st, ln, 0, ISIZE_MAX)
        if rkind.startswith("RangeFrom<"):
            st.subdef[ln] = (lc, s_)
            self.add_le(st, ln, lc, 0)
        elif rkind.startswith("RangeTo<"):
            self.add_eq(st, ln, e_, 0) if isinstance(e_, str) else self.set_iv(st, ln, e_, e_)
        elif rkind.startswith("Range<"):
            st.subdef[ln] = (e_, s_)
            self.add_le(st, ln, e_, 0)
            self.add_le(st, ln, lc, 0)

    def _rename_facts(self, st, src, dst):
        self.copy_facts(st, src, dst)

    def copy_facts(self, st, src, dst):
        """copy all facts about place src (and below) to dst"""
        if src == dst:
            return

        def ren(t):
            if isinstance(t, str) and _mentions(t, src):
                if t.startswith("len:"):
                    return "len:" + dst + t[4 + len(src):]
                return dst + t[len(src):]
            return None

        def renv(t):
            r = ren(t)
            return r if r is not None else t
        for t, v in list(st.iv.items()):
            r = ren(t)
            if r:
                st.iv[r] = v
        for (a, b), k in list(st.le.items()):
            ra, rb = ren(a), ren(b)
            if ra or rb:
                self.add_le(st, ra or a, rb or b, k)
        for d in ("variants", "ranges", "iters", "subdef", "bools", "discr", "refs"):
            m = getattr(st, d)
            for t, v in list(m.items()):
                r = ren(t)
                if r:
                    m[r] = v
        for (t, var), fs in list(st.cond.items()):
            r = ren(t)
            if r:
                st.cond[(r, var)] = [tuple(renv(x) if i and isinstance(x, str) else x for i, x in enumerate(f)) for f in fs] + \
                    [("variant", t, var)]
        sty = self.term_ty(src)
        if sty in INT_RANGES:
            self.add_le(st, src, dst, 0)
            self.add_le(st, dst, src, 0)

    def _hull_into(self, st, dt, vals):
        vals = [v for v in vals]
        if any(v is None for v in vals):
            return
        ivs = [self.iv_of(v, st) for v in vals]
        self.set_iv(st, dt, min(i[0] for i in ivs), max(i[1] for i in ivs))
        # upper/lower bound facts common to all alternatives
        cands = set()
        for v in vals:
            if isinstance(v, str):
                for (a, b), k in st.le.items():
                    if a == v:
                        cands.add((b, "up"))
                    if b == v:
                        cands.add((a, "lo"))
                cands.add((v, "up"))
                cands.add((v, "lo"))
        for (t, d) in cands:
            ks = []
            for v in vals:
                best = None
                for k in (-2, -1, 0, 1, 2):
                    if (d == "up" and self.leq(st, v, t, k)) or (d == "lo" and self.leq(st, t, v, k)):
                        best = k
                        break
                ks.append(best)
            if all(k is not None for k in ks):
                if d == "up":
                    self.add_le(st, dt, t, max(ks))
                else:
                    self.add_le(st, t, dt, max(ks))

    def call_kills(self, t, st):
        args = t["args"]
        key = callee_key(t["fn"]) if "fn" in t else ""
        pure = key.split("@")[0] in LEN_FNS or key.split("@")[0] in EMPTY_FNS
        for a in args:
            if a[0] not in ("copy", "move"):
                continue
            pl = a[1]
            if pl[1]:
                continue
            lt = "_%d" % pl[0]
            ty = self.lty(pl[0])
            at = st.alias.get(lt, lt)
            if ty.startswith("&mut "):
                tgt = st.refs.get(at)
                if tgt is None:
                    tgt = at + "*"
                if not pure:
                    self.kill(st, tgt, keep_never_written=True)
                    # the referent itself (e.g. an integer behind &mut usize)
                    for d in (st.iv, st.subdef):
                        d.pop(tgt, None)
                    for kk in [k for k in st.le if tgt in k]:
                        del st.le[kk]
            elif "closure@" in ty or "{closure" in ty:
                # a closure may write through its captured &mut references
                caps = st.clos.get(at)
                if caps is None and ty.startswith("&"):
                    caps = st.clos.get(st.refs.get(at))
                if caps is None or "?" in caps:
                    for r in list(st.mutref):
                        tg = st.refs.get(r)
                        if tg:
                            self.kill(st, tg, keep_never_written=True)
                else:
                    for tg in caps:
                        self.kill(st, tg, keep_never_written=True)

    # ------------------------------------------------------------------ summaries
    def make_summary(self):
        """facts about _0 / args that hold at every return, per returned variant"""
        b = self.b
        stable = set()
        defs = b.defs()
        for i in range(1, b.argc + 1):
            if not defs.get(i):
                stable.add("_%d" % i)

        def ok_term(t):
            if isinstance(t, int):
                return True
            base = t[4:] if t.startswith("len:") else t
            m = re.match(r"^(_\d+)", base)
            return bool(m) and (m.group(1) in stable or base.startswith("_0"))
        per_variant = {}
        for bi, st in self.ret_states:
            v = st.variants.get("_0", "any")
            facts = set()
            for (x, y), k in st.le.items():
                if ok_term(x) and ok_term(y):
                    facts.add(("le", x, y, k))
            for t, (lo, hi) in st.iv.items():
                if ok_term(t):
                    facts.add(("iv", t, lo, hi))
            for t, (x, y) in st.subdef.items():
                if t.startswith("_0"):
                    xs = [e for e in self.equivalents(st, x) if ok_term(e) and not (isinstance(e, str) and e.startswith("_0"))]
                    ys = [e for e in self.equivalents(st, y) if ok_term(e) and not (isinstance(e, str) and e.startswith("_0"))]
                    if xs and ys:
                        facts.add(("sub", t, sorted(xs, key=str)[0], sorted(ys, key=str)[0]))
            per_variant.setdefault(v, []).append((facts, st))
        out = {}
        for v, lst in per_variant.items():
            fs = None
            for facts, st in lst:
                # le facts: keep weakest k over all returns; iv: hull
                if fs is None:
                    fs = {self._fkey(f): f for f in facts}
                else:
                    cur = {self._fkey(f): f for f in facts}
                    nf = {}
                    for kf, f in fs.items():
                        g = cur.get(kf)
                        if g is None:
                            continue
                        if f[0] == "le":
                            nf[kf] = ("le", f[1], f[2], max(f[3], g[3]))
                        elif f[0] == "iv":
                            nf[kf] = ("iv", f[1], min(f[2], g[2]), max(f[3], g[3]))
                        elif f == g:
                            nf[kf] = f
                    fs = nf
            out[v] = list(fs.values()) if fs else []
        return out

    @staticmethod
    def _fkey(f):
        if f[0] == "le":
            return ("le", f[1], f[2])
        if f[0] == "iv":
            return ("iv", f[1])
        return f

    def apply_summary(self, st, summ, dt, args):
        # map callee terms (_i..., _0...) to caller terms
        amap = {}
        for i, a in enumerate(args):
            v = self.op_val(a, st)
            amap["_%d" % (i + 1)] = v

        def tr(t):
            if isinstance(t, int):
                return t
            pre = ""
            base = t
            if t.startswith("len:"):
                pre, base = "len:", t[4:]
            m = re.match(r"^(_\d+)(.*)$", base)
            if not m:
                return None
            root, rest = m.group(1), m.group(2)
            if root == "_0":
                return pre + dt + rest
            v = amap.get(root)
            if v is None:
                return None
            if isinstance(v, int):
                return v if not rest and not pre else None
            # deref of a reference argument
            while rest.startswith("*"):
                if v in st.refs:
                    v = st.refs[v]
                else:
                    v = v + "*"
                v = st.alias.get(v, v)
                rest = rest[1:]
            return pre + v + rest
        any_facts = summ.get("any", [])
        variants = [v for v in summ if v != "any"]
        def inst(f):
            if f[0] == "le":
                x, y = tr(f[1]), tr(f[2])
                if x is None or y is None:
                    return None
                return ("le", x, y, f[3])
            if f[0] == "iv":
                x = tr(f[1])
                if x is None or isinstance(x, int):
                    return None
                return ("iv", x, f[2], f[3])
            if f[0] == "sub":
                x, a, b = tr(f[1]), tr(f[2]), tr(f[3])
                if x is None or a is None or b is None:
                    return None
                return ("sub", x, a, b)
            return None
        if not variants:
            for f in any_facts:
                g = inst(f)
                if g is None:
                    continue
                if g[0] == "sub":
                    st.subdef[g[1]] = (g[2], g[3])
                else:
                    self.apply_fact(st, g)
            return
        if "any" in summ:
            return  # some return with unknown variant: nothing conditional can be said
        for v in variants:
            for f in summ[v]:
                g = inst(f)
                if g is not None and g[0] != "sub":
                    st.cond.setdefault((dt, v), []).append(g)
        if len(variants) == 1:
            st.variants[dt] = variants[0]
            for g in st.cond.get((dt, variants[0]), []):
                self.apply_fact(st, g)


def path_is_decode_string(fn):
    p = fn.get("res") or fn["raw"]
    return p.endswith("::decode_string") and ("StringDecoder" in fn["raw"] or "buffer::" in p or "unreal2" in p)


def _split_tuple(s):
    parts, depth, cur = [], 0, ""
    for ch in s:
        if ch in "<([":
            depth += 1
        elif ch in ">)]":
            depth -= 1
        if ch == "," and depth == 0:
            parts.append(cur.strip())
            cur = ""
        else:
            cur += ch
    if cur.strip():
        parts.append(cur.strip())
    return parts
