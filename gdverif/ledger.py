"""E1 part 2: discharge rules over the abstract states (R-CONST / R-IVL / R-LEN / R-GUARD / R-ENUM) and E3
allocation-size classification. A site that no rule discharges is reported by the caller unless it is
a reviewed row (reviewed.py) or an exact-key known finding."""
from .absint import Ctx, Interp, INF, ISIZE_MAX, ty_range
from .mirlib import INT_RANGES, callee_key
from . import sites as S

ALLOC_LIMIT = 16 * 1024 * 1024


def op_ty(it, op):
    if op[0] == "const":
        return op[1].get("ty")
    if op[0] in ("copy", "move"):
        l, proj = op[1]
        if not proj:
            return it.lty(l)
        t = it.term(op[1], it._cur)
        return it.term_ty(t) if t else None
    return None


def _range_fields(it, st, op):
    """(start, end) values of a Range-like struct operand"""
    v = it.op_val(op, st)
    if not isinstance(v, str):
        return None, None

    def fld(name):
        t = "%s.%s" % (v, name)
        iv = st.iv.get(t)
        if iv and iv[0] == iv[1]:
            return iv[0]
        return t
    return fld("start"), fld("end")


def discharge(site, it, st, allow_str=False):
    """-> (rule, detail) or None"""
    it._cur = st
    t = site.term
    if site.kind == "assert":
        m = t["msg"]
        k = m["k"]
        if k == "Overflow":
            a, b = m["a"], m["b"]
            va, vb = it.op_val(a, st), it.op_val(b, st)
            ia, ib = it.iv_of(va, st), it.iv_of(vb, st)
            ty = op_ty(it, a) or op_ty(it, b)
            if ty is None and t["cond"][0] in ("copy", "move"):
                # type of the checked result tuple `(T, bool)`
                tty = it.lty(t["cond"][1][0])
                if tty.startswith("(") and tty.endswith(", bool)"):
                    ty = tty[1:-7]
            tr = ty_range(ty) if ty else None
            if tr is None or tr == (-INF, INF):
                return None
            op = m["op"]
            if op in ("Shl", "Shr"):
                bits = {"u8": 8, "i8": 8, "u16": 16, "i16": 16, "u32": 32, "i32": 32, "u64": 64, "i64": 64,
                        "usize": 64, "isize": 64, "u128": 128, "i128": 128}.get(ty)
                if bits and ib[0] >= 0 and ib[1] < bits:
                    return ("R-CONST" if ib[0] == ib[1] else "R-IVL", "shift amount in [%s,%s] < %d" % (ib[0], ib[1], bits))
                return None
            if op == "Add":
                lo, hi = ia[0] + ib[0], ia[1] + ib[1]
            elif op == "Sub":
                lo, hi = ia[0] - ib[1], ia[1] - ib[0]
            elif op == "Mul":
                if INF in (abs(ia[0]), abs(ia[1]), abs(ib[0]), abs(ib[1])):
                    return None
                c = [ia[0] * ib[0], ia[0] * ib[1], ia[1] * ib[0], ia[1] * ib[1]]
                lo, hi = min(c), max(c)
            else:
                return None
            lo_ok = lo >= tr[0]
            hi_ok = hi <= tr[1]
            why = []
            if lo_ok and hi_ok:
                const = ia[0] == ia[1] and ib[0] == ib[1]
                return ("R-CONST" if const else "R-IVL", "%s in [%s,%s] op %s in [%s,%s] fits %s" % (
                    _r(va), ia[0], ia[1], _r(vb), ib[0], ib[1], ty))
            # relational arguments
            if not lo_ok and op == "Sub" and tr[0] == 0 and it.leq(st, vb, va, 0):
                lo_ok = True
                why.append("%s <= %s" % (_r(vb), _r(va)))
            if not hi_ok and op == "Add":
                # exact sum bounded by a term whose upper bound fits
                cond = t["cond"]
                tl = it.term(cond[1], st) if cond[0] in ("copy", "move") else None
                f0 = tl[:-2] + ".0" if tl and tl.endswith(".1") else None
                if f0:
                    for (x, y), kk in st.le.items():
                        if x == f0:
                            iy = it.iv_of(y, st)
                            if iy[1] + kk <= tr[1]:
                                hi_ok = True
                                why.append("sum <= %s%+d <= %s" % (_r(y), kk, iy[1] + kk))
                                break
            if lo_ok and hi_ok:
                return ("R-LEN", "; ".join(why) or "interval")
            return None
        if k == "BoundsCheck":
            vi, vl = it.op_val(m["index"], st), it.op_val(m["len"], st)
            if it.leq(st, vi, vl, -1):
                return ("R-IVL", "%s < %s" % (_r(vi), _r(vl)))
            return None
        if k in ("DivisionByZero", "RemainderByZero"):
            cond = t["cond"]
            vt = it.op_val(cond, st)
            cmp = st.bools.get(vt) if isinstance(vt, str) else None
            if cmp and cmp[0] == "Eq":
                d = cmp[1] if not (isinstance(cmp[1], int) and cmp[1] == 0 and not isinstance(cmp[2], int)) else cmp[2]
                iv = it.iv_of(d, st)
                if iv[0] > 0 or iv[1] < 0:
                    return ("R-CONST" if iv[0] == iv[1] else "R-IVL", "divisor %s in [%s,%s]" % (_r(d), iv[0], iv[1]))
            return None
        if k == "OverflowNeg":
            va = it.op_val(m["a"], st)
            ty = op_ty(it, m["a"])
            if ty and it.iv_of(va, st)[0] > ty_range(ty)[0]:
                return ("R-IVL", "operand > MIN")
            return None
        if k == "Other":
            dbg = m.get("dbg", "")
            if site.mt.startswith("X:") and ("Misaligned" in dbg or "NullPointer" in dbg):
                return ("TRUSTED-STD-MACRO", "pointer check inside %s expansion" % site.mt[2:])
            return None
        return None
    if site.kind == "call":
        kind, key = site.what.split(":", 1)
        args = t["args"]
        if kind == "index":
            base = key.split("@")[0]
            parts = key.split("@")
            if base in ("Index::index", "IndexMut::index_mut") and len(parts) >= 3:
                cty, ity = parts[1], "@".join(parts[2:])
                if cty in ("str", "String") and not allow_str:
                    return None
                c = it.container(args[0], st)
                if c is None:
                    return None
                ln = "len:" + c
                if ity == "usize":
                    vi = it.op_val(args[1], st)
                    if it.leq(st, vi, ln, -1):
                        return ("R-GUARD", "%s < %s" % (_r(vi), ln))
                    return None
                s, e = _range_fields(it, st, args[1])
                if ity.startswith("RangeTo<"):
                    if it.leq(st, e, ln, 0):
                        return ("R-LEN", "%s <= %s" % (_r(e), ln))
                elif ity.startswith("RangeFrom<"):
                    if it.leq(st, s, ln, 0):
                        return ("R-LEN", "%s <= %s" % (_r(s), ln))
                elif ity.startswith("Range<"):
                    if it.leq(st, s, e, 0) and it.leq(st, e, ln, 0):
                        return ("R-LEN", "%s <= %s <= %s" % (_r(s), _r(e), ln))
                elif ity.startswith(("RangeInclusive<", "RangeToInclusive<")):
                    return None
                return None
            if base in ("Vec::remove", "Vec::swap_remove"):
                c = it.container(args[0], st)
                vi = it.op_val(args[1], st)
                if c and it.leq(st, vi, "len:" + c, -1):
                    return ("R-GUARD", "%s < len:%s" % (_r(vi), c))
                return None
            return None
        if kind == "unwrap":
            v = it.op_val(args[0], st)
            want = 1 if key.startswith("Option") else 0
            if isinstance(v, str) and st.variants.get(v) == want:
                return ("R-ENUM", "%s is known %s here" % (v, "Some" if want == 1 else "Ok"))
            return None
        if kind == "zero-arg":
            v = it.op_val(args[1], st) if len(args) > 1 else None
            iv = it.iv_of(v, st)
            if iv[0] > 0:
                return ("R-CONST" if iv[0] == iv[1] else "R-IVL", "argument in [%s,%s] is non-zero" % iv)
            return None
        return None
    return None


def classify_alloc(site, it, st):
    """-> (class, bound_bytes|None, detail). class in CONST, TYPE, LEN, UNBOUNDED"""
    it._cur = st
    t = site.term
    fn = t["fn"]
    key = callee_key(fn)
    args = t["args"]
    argi = site.alloc_arg
    if argi >= len(args):
        return ("UNBOUNDED", None, "no size operand")
    v = it.op_val(args[argi], st)
    iv = it.iv_of(v, st)
    sizes = [s for s in (fn.get("garg_sizes") or []) if isinstance(s, int)]
    if key.startswith("HashMap") or key.startswith("HashSet"):
        esz = sum(sizes[:2]) + 8 if sizes else None
    elif key.startswith("String") or key.startswith("str::"):
        esz = 1
    else:
        esz = sizes[0] if sizes else None
    if esz is None:
        esz = 1024  # unknown element type: assume large
    esz = max(esz, 1)
    if iv[1] != INF and iv[1] * esz <= ALLOC_LIMIT:
        cls = "CONST" if iv[0] == iv[1] else "TYPE"
        return (cls, iv[1] * esz, "%s in [%s,%s] x %d B" % (_r(v), iv[0], iv[1], esz))
    # proportional to an existing container: size <= len(X) + small constant for some container X
    if isinstance(v, str):
        cands = set()
        for t_ in list(st.iv) + [x for k in st.le for x in k] + [x for sd in st.subdef.values() for x in sd if isinstance(x, str)]:
            if isinstance(t_, str) and t_.startswith("len:"):
                cands.add(t_)
        if v.startswith("len:"):
            cands.add(v)
        for lt in sorted(cands):
            for kk in (0, 2, 64, 4096):
                if it.leq(st, v, lt, kk):
                    return ("LEN", None, "%s <= %s%+d (proportional to data already held), x %d B" % (_r(v), lt, kk, esz))
    return ("UNBOUNDED", None, "%s in [%s,%s] x %d B exceeds %d" % (_r(v), iv[0], iv[1], esz, ALLOC_LIMIT))


def _r(v):
    return str(v)


class Analysis:
    """runs the interpreter once per function, caches states"""

    def __init__(self, crate, closed_world=False):
        self.crate = crate
        self.ctx = Ctx(crate, closed_world=closed_world)
        self.interps = {}
        self.errors = {}

    def interp(self, path):
        if path not in self.interps:
            body = self.ctx.body(path)
            if body is None:
                self.interps[path] = None
            else:
                try:
                    self.interps[path] = Interp(body, self.ctx).run()
                except Exception as e:  # fail closed: the caller reports every site of this function
                    self.errors[path] = repr(e)
                    self.interps[path] = None
        return self.interps[path]

    def evaluate(self, site_list, fn_paths):
        """site_list: Sites; fn_paths: fn display -> def path. returns dict key -> result"""
        res = {}
        for s in site_list:
            path = s.path
            it = self.interp(path)
            if it is None:
                res[s.key] = None
                continue
            st = it.state_before_term(s.bb)
            if st is None:
                res[s.key] = ("UNREACHABLE", "block not reached by the analysis")
                continue
            if s.kind == "alloc":
                res[s.key] = classify_alloc(s, it, st)
            else:
                res[s.key] = discharge(s, it, st)
        return res
