"""Which functions carry a reviewed table (a *unit*), per property.

Policy: a unit is a function whose name is part of a stable interface -
  * every function of the public API (effective visibility `pub`) of the module group a property is about,
  * every function of the shared kernel modules (packet reader, sockets, http, utils), whatever its visibility,
  * the wire codecs a property names explicitly (Minecraft VarInt / string),
  * for the CLI (a binary, nothing exported) the functions listed by hand.
Everything else - private and crate-visible helpers - is inlined into the term of the unit that calls it, so that
extracting, inlining, merging or renaming helpers does not change any table."""

VIEW_TRAITS = ("CommonResponse", "CommonPlayer")
KERNEL_TRAIT_PREFIXES = ("gamedig::buffer::", "gamedig::socket::")

RULES = {
    "C02": {"provenance": "Valve Developer Wiki 'Server queries' (A2S_INFO / A2S_PLAYER / A2S_RULES, multi-packet response format), transcribed from memory and cross-read with node-gamedig valve.js; rows reviewed one by one",
            "exported_in": ["gamedig::protocols::valve::"]},
    "C03": {"provenance": "wiki.vg 'Server List Ping' (Java JSON status, legacy 1.6 / 1.4 / beta 1.8 kick packets) and node-gamedig minecraftbedrock.js; pinned tree reviewed",
            "exported_in": ["gamedig::games::minecraft::"]},
    "C04": {"provenance": "node-gamedig gamespy1.js / gamespy2.js / gamespy3.js as cited by PROTOCOLS.md; pinned tree reviewed",
            "exported_in": ["gamedig::protocols::gamespy::"]},
    "C05": {"provenance": "node-gamedig quake1.js/quake2.js/quake3.js; pinned tree reviewed",
            "exported_in": ["gamedig::protocols::quake::"]},
    "C06": {"provenance": "node-gamedig unreal2.js; pinned tree reviewed",
            "exported_in": ["gamedig::protocols::unreal2::"]},
    "C07": {"provenance": "node-gamedig ffow.js / savage2.js / jc2mp.js, Mindustry NetworkIO.java, pinned tree reviewed",
            "exported_in": ["gamedig::games::ffow::", "gamedig::games::savage2::", "gamedig::games::jc2m::", "gamedig::games::mindustry::",
                            "gamedig::games::theship::", "gamedig::games::battalion1944::", "gamedig::games::eco::"]},
    "C12": {"provenance": "timeout settings plumbing: constructor, getters and defaults must hand each duration to its own role, and the transport layer must apply each to the matching socket option; pinned tree reviewed",
            "exported_in": ["gamedig::protocols::types::"], "self_ty": "TimeoutSettings",
            "all_in": ["gamedig::socket::", "gamedig::http::"]},
    "C14": {"provenance": "generic dispatcher: per protocol arm the callee and exactly which of (socket_addr built from the definition's default port | raw address, port | definition request settings | caller extra settings | defaults) it passes; pinned tree reviewed against the per-game wrappers",
            "exported_in": ["gamedig::games::query::"], "also_self_ty": ("gamedig::protocols::types::", "ExtraRequestSettings")},
    "C16": {"provenance": "Valve Developer Wiki 'Master Server Query Protocol' (request layout, filter keys, \\nor\\ / \\nand\\ groups, reply format); rows reviewed",
            "exported_in": ["gamedig::services::valve_master_server::"]},
    "C17": {"provenance": "the packet reader and codecs are the reference point of every parser; their terms are pinned after the INV-CURSOR / decoder-contract proofs (C17 D1-D5) and review against the VarInt definition of wiki.vg",
            "all_in": ["gamedig::buffer::"],
            "explicit": ["gamedig::games::minecraft::types::get_varint", "gamedig::games::minecraft::types::as_varint",
                         "gamedig::games::minecraft::types::get_string", "gamedig::games::minecraft::types::as_string",
                         "gamedig::utils::u8_lower_upper", "gamedig::utils::error_by_expected_size"]},
    "C19": {"crate": "gamedig_cli-bin", "provenance": "CLI control flow: which writer each (mode, format) pair reaches with which view of the response, and how main chains lookup, resolution, query and output; pinned tree reviewed",
            "explicit": ["gamedig_cli::main", "gamedig_cli::output_result", "gamedig_cli::find_game", "gamedig_cli::resolve_ip_or_domain",
                         "gamedig_cli::resolve_domain", "gamedig_cli::set_hostname_if_missing", "gamedig_cli::output_result_json",
                         "gamedig_cli::output_result_json_pretty", "gamedig_cli::output_result_bson_hex", "gamedig_cli::output_result_bson_base64",
                         "gamedig_cli::output_result_debug", "gamedig_cli::output_result_xml", "gamedig_cli::output_result_xml::json_to_xml"]},
}
# C09 has no table of its own functions: its table is the projection of every I/O unit's rows onto what is sent
# (tracespec.request_rows).


def plain(f):
    return (f["kind"] in ("Fn", "AssocFn") and f.get("hir") and not f.get("auto_derived") and "::tests::" not in f["path"]
            and not f["macro"].startswith("X:"))


def select(c, prop):
    """def paths of the units of `prop` in crate c (current tree)"""
    r = RULES[prop]
    out = []
    for f in c.fns:
        if not plain(f):
            continue
        p = f["path"]
        tr = (f.get("impl_trait") or "").split("::")[-1]
        if tr in VIEW_TRAITS:
            continue
        hit = False
        if f.get("exported") and any(p.startswith(x) for x in r.get("exported_in", [])) and not f["macro"].startswith("L:game_query"):
            hit = r.get("self_ty") is None or r["self_ty"] in (f.get("self_ty") or "")
        if not hit and f.get("exported") and r.get("also_self_ty") and p.startswith(r["also_self_ty"][0]) and r["also_self_ty"][1] in (f.get("self_ty") or ""):
            hit = True
        if not hit and any(p.startswith(x) for x in r.get("all_in", [])) and f["macro"] == "":
            hit = True
        # implementations of the kernel's traits (string decoders, readers, sockets) that live in this property's modules:
        # they are reached through a type parameter of a kernel call, never by a direct call that could be inlined
        if not hit and (f.get("impl_trait") or "").startswith(KERNEL_TRAIT_PREFIXES) and any(p.startswith(x) for x in r.get("exported_in", [])):
            hit = True
        if not hit and p in r.get("explicit", []):
            hit = True
        if hit:
            out.append(p)
    return sorted(out)


def exported_units(c):
    """every exported function of the library is an inlining boundary, tabled or not"""
    return {f["path"] for f in c.fns if plain(f) and f.get("exported")}
