"""E1 part 1: enumerate panic sites (MIR Assert terminators, calls to may-panic functions, explicit panics)
and allocation sites in local bodies. Rule-free enumeration; discharge happens in ledger.py."""
import re
from .mirlib import Body, callee_key, callee_path, short_ty, is_external_macro

# callee_key prefix -> kind.  Deny-list (see DESIGN 2.9: everything in std/deps not listed is trusted total).
MAY_PANIC_EXACT = {
    "Option::unwrap": "unwrap", "Option::expect": "unwrap", "Result::unwrap": "unwrap", "Result::expect": "unwrap",
    "Result::unwrap_err": "unwrap", "Result::expect_err": "unwrap",
    "String::remove": "str-index", "String::insert": "str-index", "String::insert_str": "str-index",
    "String::split_off": "str-index", "String::drain": "str-index", "String::replace_range": "str-index",
    "String::truncate": "str-index", "String::pop": None,
    "Vec::remove": "index", "Vec::swap_remove": "index", "Vec::insert": "index", "Vec::split_off": "index",
    "Vec::drain": "index", "Vec::extend_from_within": "index", "Vec::splice": "index",
    "VecDeque::remove": None,
    "slice::split_at": "index", "slice::split_at_mut": "index", "slice::copy_from_slice": "index",
    "slice::clone_from_slice": "index", "slice::swap": "index", "slice::rotate_left": "index",
    "slice::rotate_right": "index", "slice::copy_within": "index", "slice::select_nth_unstable": "index",
    "slice::chunks": "zero-arg", "slice::chunks_exact": "zero-arg", "slice::chunks_mut": "zero-arg",
    "slice::windows": "zero-arg", "slice::rchunks": "zero-arg", "slice::as_chunks": "zero-arg",
    "str::split_at": "str-index", "Iterator::step_by": "zero-arg",
    "Iterator::sum": "overflow", "Iterator::product": "overflow",
    "RefCell::borrow": "borrow", "RefCell::borrow_mut": "borrow",
    "char::to_digit": "radix", "char::from_digit": "radix",
    "process::exit": "abort", "process::abort": "abort",
    "Duration::from_secs_f64": "overflow", "Duration::from_secs_f32": "overflow", "Duration::mul_f64": "overflow",
    "Instant::duration_since": None,
}
MAY_PANIC_PREFIX = [
    ("Index::index@", "index"), ("IndexMut::index_mut@", "index"),
    ("ByteOrder::read_", "len-contract"), ("ByteOrder::write_", "len-contract"),
    ("Add::add@Duration", "overflow"), ("Sub::sub@Duration", "overflow"), ("Mul::mul@Duration", "overflow"),
    ("Sub::sub@Instant", "overflow"), ("Add::add@Instant", "overflow"), ("Sub::sub@SystemTime", "overflow"),
    ("AddAssign::add_assign@Duration", "overflow"), ("SubAssign::sub_assign@Duration", "overflow"),
]
INT_METHODS_PANIC = {"pow", "abs", "div_euclid", "rem_euclid", "next_power_of_two", "isqrt", "ilog", "ilog2", "ilog10",
                     "abs_diff_", "strict_add", "strict_sub", "strict_mul", "next_multiple_of", "div_ceil"}
INT_TYPES = {"u8", "u16", "u32", "u64", "u128", "usize", "i8", "i16", "i32", "i64", "i128", "isize"}

PANIC_FNS = ("core::panicking::", "std::panicking::begin_panic", "std::rt::begin_panic", "core::option::unwrap_failed",
             "core::option::expect_failed", "core::result::unwrap_failed", "core::slice::index::slice_",
             "core::str::slice_error_fail", "alloc::raw_vec::capacity_overflow", "alloc::alloc::handle_alloc_error",
             "std::process::abort", "core::intrinsics::abort")

ALLOC_EXACT = {
    "Vec::with_capacity": 0, "String::with_capacity": 0, "HashMap::with_capacity": 0, "HashSet::with_capacity": 0,
    "VecDeque::with_capacity": 0, "BTreeMap::with_capacity": 0, "Vec::with_capacity_in": 0,
    "HashMap::with_capacity_and_hasher": 0, "BufReader::with_capacity": 0, "BufWriter::with_capacity": 0,
    "Vec::reserve": 1, "Vec::reserve_exact": 1, "String::reserve": 1, "HashMap::reserve": 1, "HashSet::reserve": 1,
    "Vec::try_reserve": 1, "Vec::resize": 1, "Vec::resize_with": 1, "VecDeque::resize": 1,
    "vec::from_elem": 1, "slice::repeat": 1, "str::repeat": 1, "iter::repeat_n": 1,
    "Vec::set_len": 1,
}


def index_never_panics(key):
    # serde_json::Value immutable indexing returns Null instead of panicking
    return key.startswith("Index::index@serde_json::Value") or key.startswith("Index::index@Value")


def classify_call(fnref):
    """-> (kind, key) if the callee may panic, else None"""
    key = callee_key(fnref)
    path = callee_path(fnref)
    raw = fnref["raw"]
    for p in PANIC_FNS:
        if path.startswith(p) or raw.startswith(p):
            return ("explicit-panic", key)
    if key in MAY_PANIC_EXACT:
        k = MAY_PANIC_EXACT[key]
        return (k, key) if k else None
    for pre, k in MAY_PANIC_PREFIX:
        if key.startswith(pre):
            if index_never_panics(key):
                return None
            return (k, key)
    segs = key.split("::")
    if len(segs) == 2 and segs[0] in INT_TYPES and segs[1] in INT_METHODS_PANIC:
        return ("overflow", key)
    return None


def classify_alloc(fnref):
    key = callee_key(fnref)
    if key in ALLOC_EXACT:
        return (key, ALLOC_EXACT[key])
    return None


class Site:
    __slots__ = ("fn", "bb", "kind", "what", "operands", "at", "mt", "term", "canon", "readable", "key", "alloc_arg", "path")

    def __init__(self, **kw):
        for k in self.__slots__:
            setattr(self, k, kw.get(k))

    def __repr__(self):
        return "<Site %s %s %s>" % (self.fn, self.kind, self.readable)


def fn_display(f):
    """stable, human-readable function id used in keys: crate-qualified def path with impl self types"""
    p = re.sub(r"_#\d+", "_", f["path"])
    # closure ordinals shift when an unrelated closure is added earlier in the function: name closures without index
    p = re.sub(r"\{closure#\d+\}", "{closure}", p)
    if "{impl#" in p and f.get("self_ty"):
        st = short_ty(f["self_ty"])
        st = re.sub(r"<'[a-z_]+(, )?", "<", st).replace("<>", "")
        tr = f.get("impl_trait")
        name = p.split("::")[-1]
        mod = p.split("::{impl#")[0]
        tail = p.split("}::", 1)[1] if "}::" in p else name
        if tr:
            return "%s::<%s as %s>::%s" % (mod, st, tr.split("::")[-1], tail)
        return "%s::<%s>::%s" % (mod, st, tail)
    if "{impl#" in p:
        # closures inside impl methods: name the impl by the parent's display where possible
        return p
    return p


def enumerate_sites(crate, include_external_macro_fns=False):
    """yield Site for every panic/alloc site in every local body"""
    out = []
    for f in crate.fns:
        if "mir" not in f:
            continue
        if is_external_macro(f["macro"]) and not include_external_macro_fns:
            continue
        if f["kind"] not in ("Fn", "AssocFn", "Closure"):
            continue
        body = Body(f)
        reach = body.reachable()
        fd = fn_display(f)
        for bi, b in enumerate(body.blocks):
            if b["cleanup"] or bi not in reach:
                continue
            t = b["term"]
            if not t:
                continue
            if t["k"] == "assert":
                m = t["msg"]
                mk = m["k"]
                if mk == "Overflow":
                    what = "overflow:%s" % m["op"]
                    ops = [m["a"], m["b"]]
                elif mk == "BoundsCheck":
                    what = "bounds"
                    ops = [m["index"], m["len"]]
                elif mk in ("DivisionByZero", "RemainderByZero", "OverflowNeg"):
                    what = mk
                    ops = [m["a"]]
                else:
                    what = "assert:" + mk
                    ops = []
                out.append(_mk(body, fd, bi, "assert", what, ops, t))
            elif t["k"] == "call" and "fn" in t:
                c = classify_call(t["fn"])
                if c:
                    kind, key = c
                    out.append(_mk(body, fd, bi, "call", "%s:%s" % (kind, key), t["args"], t))
                a = classify_alloc(t["fn"])
                if a:
                    key, argi = a
                    s = _mk(body, fd, bi, "alloc", "alloc:%s" % key, t["args"], t)
                    s.alloc_arg = argi
                    out.append(s)
    # keys: fn | what | canonical operands ; disambiguate duplicates by ordinal
    seen = {}
    for s in out:
        base = "%s|%s|%s" % (s.fn, s.what, s.canon)
        n = seen.get(base, 0) + 1
        seen[base] = n
        s.key = base if n == 1 else "%s#%d" % (base, n)
    return out


def _mk(body, fd, bi, kind, what, ops, t):
    canon = ", ".join(body.render_operand(o, 3, names=False) for o in ops)
    readable = ", ".join(body.render_operand(o, 3, names=True) for o in ops)
    return Site(fn=fd, bb=bi, kind=kind, what=what, operands=ops, at=t.get("at"), mt=t.get("mt", ""), term=t,
                canon=canon, readable=readable, path=body.path)
