"""Fact extraction (runs the gdfacts rustc driver over /repo's current working tree) and loading.

Facts are cached under /verif/.cache/facts/<key>/ where key = sha256 over the content of every
source-relevant file of /repo (everything except .git and target dirs) + the feature configuration
+ the driver binary. The key is tree *content*: an edit to /repo always re-extracts.
"""
import hashlib, json, os, shutil, subprocess, sys, tempfile, time

VERIF = os.path.dirname(os.path.dirname(os.path.abspath(__file__)))
REPO = os.environ.get("GDVERIF_REPO", "/repo")
DRIVER = os.path.join(VERIF, "gdfacts", "target", "release", "gdfacts")
CACHE = os.path.join(VERIF, ".cache", "facts")

CONFIGS = {
    # same feature unification as the baseline test build (cli pulls clap+serde into the lib)
    "baseline": ["--workspace"],
    "libdefault": ["-p", "gamedig"],
    "allfeatures": ["-p", "gamedig", "--all-features"],
}
EXPECTED = {
    "baseline": ["gamedig-lib", "gamedig_cli-bin", "gamedig_id_tests-lib", "gamedig_id_tests-bin"],
    "libdefault": ["gamedig-lib"],
    "allfeatures": ["gamedig-lib"],
}
# floors: number of MIR bodies seen on the reviewed tree (a silently skipped wrapper cannot pass)
FLOOR_BODIES = {"gamedig-lib": 1500, "gamedig_cli-bin": 40, "gamedig_id_tests-lib": 25, "gamedig_id_tests-bin": 1}
FLOOR_BODIES_CFG = {("libdefault", "gamedig-lib"): 900, ("allfeatures", "gamedig-lib"): 1500}


def _sysroot():
    return subprocess.check_output(["rustc", "+nightly", "--print", "sysroot"], text=True).strip()


def tree_hash(repo=None):
    repo = repo or REPO
    h = hashlib.sha256()
    for root, dirs, files in os.walk(repo):
        dirs[:] = sorted(d for d in dirs if d not in (".git", "target"))
        for f in sorted(files):
            p = os.path.join(root, f)
            if not (f.endswith(".rs") or f.endswith(".toml") or f == "Cargo.lock"):
                continue
            h.update(os.path.relpath(p, repo).encode())
            h.update(b"\0")
            try:
                with open(p, "rb") as fh:
                    h.update(fh.read())
            except OSError:
                pass
            h.update(b"\0")
    return h.hexdigest()


def driver_hash():
    with open(DRIVER, "rb") as fh:
        return hashlib.sha256(fh.read()).hexdigest()[:16]


def ensure_driver():
    if not os.path.exists(DRIVER):
        subprocess.check_call(["cargo", "+nightly", "build", "--release", "--offline"],
                              cwd=os.path.join(VERIF, "gdfacts"))


def extract(config="baseline", repo=None, verbose=False):
    """Return directory holding <crate>-<kind>.json for the current tree; extract if not cached."""
    repo = repo or REPO
    ensure_driver()
    key = hashlib.sha256((tree_hash(repo) + config + driver_hash()).encode()).hexdigest()[:32]
    out = os.path.join(CACHE, key)
    marker = os.path.join(out, "OK")
    if os.path.exists(marker):
        try:
            os.utime(out)
        except OSError:
            pass
        return out
    os.makedirs(CACHE, exist_ok=True)
    tmp_out = tempfile.mkdtemp(prefix="gdfacts_out_", dir=CACHE)
    target = tempfile.mkdtemp(prefix="gdfacts_target_")
    env = dict(os.environ)
    env.update({
        "LD_LIBRARY_PATH": os.path.join(_sysroot(), "lib"),
        "RUSTFLAGS": "-Zmir-opt-level=0 -Awarnings",
        "RUSTC_WORKSPACE_WRAPPER": DRIVER,
        "CARGO_TARGET_DIR": target,
        "CARGO_NET_OFFLINE": "true",
        "GDFACTS_OUT": tmp_out,
    })
    env.pop("RUSTC_WRAPPER", None)
    t0 = time.time()
    try:
        p = subprocess.run(["cargo", "+nightly", "check", "--offline"] + CONFIGS[config],
                           cwd=repo, env=env, stdout=subprocess.PIPE, stderr=subprocess.STDOUT, text=True)
        if p.returncode != 0:
            sys.stderr.write(p.stdout[-6000:])
            shutil.rmtree(tmp_out, ignore_errors=True)
            raise RuntimeError("extraction failed: cargo check exited %d (the tree does not build?)" % p.returncode)
    finally:
        shutil.rmtree(target, ignore_errors=True)
    for name in EXPECTED[config]:
        fp = os.path.join(tmp_out, name + ".json")
        if not os.path.exists(fp):
            shutil.rmtree(tmp_out, ignore_errors=True)
            raise RuntimeError("extraction produced no facts for %s (wrapper skipped?)" % name)
    with open(os.path.join(tmp_out, "OK"), "w") as fh:
        fh.write(json.dumps({"config": config, "wall_s": time.time() - t0, "tree": tree_hash(repo)}))
    if os.path.exists(out):
        shutil.rmtree(tmp_out, ignore_errors=True)
    else:
        os.rename(tmp_out, out)
    _prune_cache(keep=out)
    if verbose:
        sys.stderr.write("extracted %s in %.1fs\n" % (config, time.time() - t0))
    return out


def _prune_cache(keep, max_entries=10):
    try:
        ents = [os.path.join(CACHE, d) for d in os.listdir(CACHE)]
        ents = [e for e in ents if os.path.isdir(e) and e != keep and os.path.exists(os.path.join(e, "OK"))]
        ents.sort(key=lambda e: os.path.getmtime(e))
        while len(ents) > max_entries - 1:
            shutil.rmtree(ents.pop(0), ignore_errors=True)
    except OSError:
        pass


class Crate:
    def __init__(self, doc):
        self.doc = doc
        self.name = doc["crate"]
        self.fns = doc["fns"]
        self.by_path = {}
        for f in self.fns:
            self.by_path[f["path"]] = f
        self.impls = doc["impls"]
        self.adts = {a["path"]: a for a in doc["adts"]}
        self.consts = doc["consts"]

    def fn(self, path):
        return self.by_path.get(path)

    def find(self, suffix):
        """functions whose pretty path or def path ends with suffix"""
        return [f for f in self.fns if f["path"].endswith(suffix) or f["pretty"].endswith(suffix)]


_loaded = {}


def load(config="baseline", name="gamedig-lib", repo=None):
    d = extract(config, repo)
    k = (d, name)
    if k not in _loaded:
        with open(os.path.join(d, name + ".json")) as fh:
            doc = json.load(fh)
        floor = FLOOR_BODIES_CFG.get((config, name), FLOOR_BODIES.get(name, 1))
        if doc["n_mir"] < floor:
            raise RuntimeError("facts for %s (%s) have only %d bodies (< floor %d)" % (name, config, doc["n_mir"], floor))
        _loaded[k] = Crate(doc)
        _loaded[k].config = config
    return _loaded[k]
