"""Comparison of extracted traces (trace.py) with the frozen, reviewed spec tables in /verif/spec/traces/<PROP>.json."""
import difflib, json, os
from . import trace as T, sites as S, hirlib as H, sym as SY, units as U
from .core import VERIF


def spec_path(prop):
    return os.path.join(VERIF, "spec", "traces", prop + ".json")


def load_spec(prop):
    with open(spec_path(prop)) as fh:
        return json.load(fh)


def fn_index(c):
    idx = {}
    for f in c.fns:
        if f.get("hir"):
            idx.setdefault(S.fn_display(f), f)
    return idx


_UNITS = {}


def all_units(c):
    """def paths that are never inlined: the units of every property (units.py) and every exported function; plus the call graph"""
    key = id(c)
    if key not in _UNITS:
        units = set(U.exported_units(c))
        for prop, r in U.RULES.items():
            units |= set(U.select(c, prop))
        from .cg import CallGraph
        _UNITS[key] = (units, CallGraph(c))
    return _UNITS[key]


REQUEST_OPS = ("socket.send", "Socket::new", "call http::", "call socket::")


def rows_of(c, f, opts=None):
    units, g = all_units(c)
    s = SY.Sym(c, lambda p: p in units, g)
    eff = s.run_unit(f)
    if opts and opts.get("project") == "requests":
        # C09: only what is emitted - socket construction (destination), sends (bytes) and calls of other units, each with the
        # conditions / loops it sits under; values that come from rows not shown appear as <operation>
        p = SY.Printer(s, select=lambda op: op.name.startswith(REQUEST_OPS) or op.name.startswith("call "))
    else:
        p = SY.Printer(s)
    p.emit(eff, [])
    p.finish()
    _SEND_AT.setdefault(id(c), set()).update(op.at for op in s.ops.values() if op.name == "socket.send" and op.at)
    _VISITED.setdefault(id(c), set()).update(s.visited)
    return p.rows


_VISITED = {}


def coverage(rep, c, prop, rule):
    """every local function that a unit of this property can reach (resolved call graph, not crossing other units or the
    kernel) was evaluated as part of some unit's term: no code that shapes the result escapes the tables"""
    units, g = all_units(c)
    mine = U.select(c, prop)
    seen = _VISITED.get(id(c), set())
    todo = list(mine)
    reach = set()
    while todo:
        x = todo.pop()
        for (callee, _, _) in g.edges.get(x, []):
            f = c.fn(callee)
            if f is None or callee in reach:
                continue
            if f["kind"] == "Closure":
                reach.add(callee)
                todo.append(callee)
                continue
            if callee in units or callee.startswith(SY.KERNEL_PREFIXES) or f.get("auto_derived") or f["macro"].startswith("X:") or not f.get("hir"):
                continue
            reach.add(callee)
            todo.append(callee)
    n = 0
    for p_ in sorted(reach):
        f = c.fn(p_)
        if f["kind"] == "Closure":
            continue
        n += 1
        ok = p_ in seen
        rep.add("%s|covered-by-a-table" % S.fn_display(f), rule, ok,
                "evaluated as part of a unit's term" if ok else
                "%s is reachable from the units of %s but is neither a unit nor inlined into one: its behaviour is in no reviewed table" % (S.fn_display(f), prop),
                f["span"], nontrivial=False)
    rep.count("helpers_inlined", n)
    return n


_SEND_AT = {}


def send_sites_seen(c):
    """source positions of every Socket::send evaluated while building the rows of the tabled units so far"""
    return _SEND_AT.get(id(c), set())


def compare(rep, c, prop, rule):
    """one obligation per spec row (matched / changed / missing) and per extra row"""
    spec = load_spec(prop)
    idx = fn_index(c)
    n_rows = 0
    n_fns = 0
    for name, ent in spec["functions"].items():
        f = idx.get(name)
        if f is None:
            # moved to another module? accept a unique function with the same self type and name
            tail = name.split("::<")[-1] if "::<" in name else name.split("::")[-1]
            cands = [k for k in idx if k.endswith(tail) and k.split("::")[-1] == name.split("::")[-1]]
            if len(cands) == 1:
                f = idx[cands[0]]
                rep.notes.append("table for %s matched to moved function %s" % (name, cands[0]))
        if f is None and ent.get("only_in") and ent["only_in"] != getattr(c, "config", "baseline"):
            continue   # a unit that exists only under a feature this configuration does not enable
        if f is None:
            rep.add("%s|trace|missing-fn" % name, rule, False,
                    "anchor-lost: function %s (spec table '%s') no longer exists: its wire schedule cannot be compared" % (name, ent.get("table", "")))
            continue
        n_fns += 1
        cur = rows_of(c, f, ent)
        # code under #[cfg(feature = ..)] differs between build configurations: such units carry one table per configuration
        want = ent.get("rows@" + getattr(c, "config", "baseline"), ent["rows"])
        n_rows += len(want)
        if cur == want:
            for i, r in enumerate(want):
                rep.add("%s|trace|%d" % (name, i), rule, True, r, f["span"])
            continue
        sm = difflib.SequenceMatcher(a=want, b=cur, autojunk=False)
        for tag, i1, i2, j1, j2 in sm.get_opcodes():
            if tag == "equal":
                for i in range(i1, i2):
                    rep.add("%s|trace|%d" % (name, i), rule, True, want[i], f["span"], nontrivial=False)
            else:
                exp = want[i1:i2]
                got = cur[j1:j2]
                rep.add("%s|trace|%s" % (name, "rows %d-%d" % (i1, i2) if exp else "extra after %d" % i1), rule, False,
                        "wire/mapping schedule of %s differs from the reviewed table (%s):\n      spec: %s\n      code: %s" % (
                            name, ent.get("provenance", spec.get("provenance", "")), " || ".join(exp) or "<nothing>", " || ".join(got) or "<nothing>"), f["span"])
    # units of this property that exist in the tree but have no table yet (new API): reported, not a violation
    if prop in U.RULES:
        have = {idx[n]["path"] for n in spec["functions"] if n in idx}
        for p_ in U.select(c, prop):
            if p_ not in have:
                rep.notes.append("unit without a reviewed table (new function?): %s" % p_)
    rep.count("trace_functions", n_fns)
    rep.count("trace_rows", n_rows)
    return n_fns, n_rows
