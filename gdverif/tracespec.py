"""Comparison of extracted traces (trace.py) with the frozen, reviewed spec tables in /verif/spec/traces/<PROP>.json."""
import difflib, json, os
from . import trace as T, sites as S, hirlib as H, sym as SY
from .core import VERIF


def spec_path(prop):
    return os.path.join(VERIF, "spec", "traces", prop + ".json")


def load_spec(prop):
    with open(spec_path(prop)) as fh:
        return json.load(fh)


def fn_index(c):
    idx = {}
    for f in c.fns:
        if f.get("hir"):
            idx.setdefault(S.fn_display(f), f)
    return idx


_UNITS = {}
_AUTO = {}


def all_units(c):
    """def paths of every function that has a reviewed table (in any property): calls between units stay opaque rows,
    every other local helper is inlined into its caller's term"""
    key = id(c)
    if key not in _UNITS:
        idx = fn_index(c)
        units = set()
        d = os.path.join(VERIF, "spec", "traces")
        for fn in sorted(os.listdir(d)):
            if not fn.endswith(".json"):
                continue
            with open(os.path.join(d, fn)) as fh:
                sp = json.load(fh)
            for name in sp["functions"]:
                f = idx.get(name)
                if f is not None:
                    units.add(f["path"])
        from .cg import CallGraph
        g = CallGraph(c)
        # the I/O API boundary is never inlined through, tabled or not: crate-visible functions that reach a socket / http call
        auto = set()
        for f in c.fns:
            if f["kind"] in ("Fn", "AssocFn") and f.get("hir") and (f.get("vis") == "pub" or f.get("vis") == "in:" + c.name) \
                    and f["path"] not in units and not f["path"].startswith(SY.KERNEL_PREFIXES) and g.reaches(f["path"], SY.IO_PRED):
                auto.add(f["path"])
        _AUTO[key] = sorted(auto)
        _UNITS[key] = (units | auto, g)
    return _UNITS[key]


def rows_of(c, f, opts=None):
    units, g = all_units(c)
    rows, notes = SY.rows_of(c, f, lambda p: p in units, g)
    return rows


def compare(rep, c, prop, rule):
    """one obligation per spec row (matched / changed / missing) and per extra row"""
    spec = load_spec(prop)
    idx = fn_index(c)
    n_rows = 0
    n_fns = 0
    for name, ent in spec["functions"].items():
        f = idx.get(name)
        if f is None:
            # moved to another module? accept a unique function with the same self type and name
            tail = name.split("::<")[-1] if "::<" in name else name.split("::")[-1]
            cands = [k for k in idx if k.endswith(tail) and k.split("::")[-1] == name.split("::")[-1]]
            if len(cands) == 1:
                f = idx[cands[0]]
                rep.notes.append("table for %s matched to moved function %s" % (name, cands[0]))
        if f is None:
            rep.add("%s|trace|missing-fn" % name, rule, False,
                    "anchor-lost: function %s (spec table '%s') no longer exists: its wire schedule cannot be compared" % (name, ent.get("table", "")))
            continue
        n_fns += 1
        cur = rows_of(c, f, ent)
        want = ent["rows"]
        n_rows += len(want)
        if cur == want:
            for i, r in enumerate(want):
                rep.add("%s|trace|%d" % (name, i), rule, True, r, f["span"])
            continue
        sm = difflib.SequenceMatcher(a=want, b=cur, autojunk=False)
        for tag, i1, i2, j1, j2 in sm.get_opcodes():
            if tag == "equal":
                for i in range(i1, i2):
                    rep.add("%s|trace|%d" % (name, i), rule, True, want[i], f["span"], nontrivial=False)
            else:
                exp = want[i1:i2]
                got = cur[j1:j2]
                rep.add("%s|trace|%s" % (name, "rows %d-%d" % (i1, i2) if exp else "extra after %d" % i1), rule, False,
                        "wire/mapping schedule of %s differs from the reviewed table (%s):\n      spec: %s\n      code: %s" % (
                            name, ent.get("provenance", spec.get("provenance", "")), " || ".join(exp) or "<nothing>", " || ".join(got) or "<nothing>"), f["span"])
    rep.count("trace_functions", n_fns)
    rep.count("trace_rows", n_rows)
    return n_fns, n_rows
