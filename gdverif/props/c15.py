"""C15 - the protocol-independent view equals the protocol-specific data.
D1 every accessor of every CommonResponse / CommonPlayer impl returns a field of self whose name is the accessor's name or
   a reviewed synonym (after stripping Some/&/into/as_deref/...): a swapped or foreign field cannot pass;
D2 the default as_json wires each JSON field to the same-named accessor (players through CommonPlayer::as_json);
D3 as_original wraps `self` in a Generic{Response,Player} constructor.
The impl set is enumerated from the trait impl index, so a new impl is checked automatically."""
import re
from ..core import Report
from . import common as K
from .. import hirlib as H

TRAITS = {"gamedig::protocols::types::CommonResponse": "resp", "gamedig::protocols::types::CommonPlayer": "player"}
SYNONYMS = {
    "players_maximum": {"players_maximum", "player_limit", "max_players", "players_maxmimum"},   # sic: epic::Response spells its field this way
    "players_online": {"players_online", "num_players", "players"},   # mindustry ServerData.players is the online count
    "game_mode": {"game_mode", "gamemode", "game_type"},
    "game_version": {"game_version", "version_name"},
    "has_password": {"has_password", "password"},
    "name": {"name"}, "map": {"map"}, "description": {"description"}, "players_bots": {"players_bots"},
    "score": {"score"}, "players": {"players"},
}
# transparent wrappers around the field
WRAP_M = {"into", "as_deref", "as_ref", "as_str", "clone", "to_owned", "unwrap_or", "try_into", "iter", "collect", "map", "as_slice", "deref"}
# reviewed: types whose `players` is a count (so `players_online -> self.players` is right) vs a list
PLAYERS_IS_COUNT = {"games::mindustry::types::ServerData"}


WRAP_LAST = WRAP_M | {"from", "copied", "cloned", "to_vec", "as_mut", "borrow"}


def _sym_ret(c, f):
    """(value returned by accessor f, evaluator, printer): the canonical term of the function (sym.py), so that the rule sees
    through let-bindings, `?` on options, helper locals and conversion spelling"""
    from .. import sym as SY
    sy = SY.Sym(c, lambda p: False, None)
    eff = sy.run_unit(f)
    pr = SY.Printer(sy)
    rets = [e for e in eff if e[0] == "ret"]
    others = [e for e in eff if e[0] not in ("ret",)]
    if len(rets) != 1 or any(e[0] in ("op", "set", "loop", "scope") for e in others):
        return None, sy, pr
    return rets[0][1], sy, pr


# `as` casts are transparent only when they cannot change the value: the accessor's declared widths are not known to the
# term, so an `as` cast is accepted only towards the widest types the views use and never directly on top of another cast
LOSSLESS_TO = {"u32", "u64", "i64", "usize", "f64", "u128", "i128"}


def _cast_source_ok(v):
    return v[2][0] != "cast"


ELEM = ("elem",)


def _strip_elem(v):
    for _ in range(6):
        if v[0] == "cast" and "dyn " in v[1]:
            v = v[2]
        elif v[0] == "ref":
            v = v[1]
        else:
            break
    return v


def _transparent(sy, lam, arg):
    """value of applying an effect-free lambda to `arg`, or None"""
    if lam[0] != "lam" or lam[3] or lam[2] != 1:
        return None
    return sy.subst_bv(lam[4], lam[1], [arg])


def field_of_value(v, sy=None):
    """strip transparent wrappers from a symbolic value, return the field path rooted at self (['self', ...]) or None"""
    for _ in range(16):
        k = v[0]
        if k == "ctor" and v[1] in ("Some", "Ok") and len(v[2]) == 1:
            v = v[2][0]
        elif k == "cast" and ("dyn " in v[1] or (v[1] in LOSSLESS_TO and _cast_source_ok(v))):
            v = v[2]
        elif k == "conv":
            v = v[2]
        elif k == "call" and len(v[3]) == 2 and v[3][1][0] == "lam" and v[1].split("::")[-1].split("<")[0] in ("map", "and_then"):
            # a closure applied to the value (Option::map) or to each element (Iterator::map): it must itself be transparent
            if sy is None:
                return None
            if v[1].startswith(("Option::", "Result::")):
                r = _transparent(sy, v[3][1], v[3][0])
                if r is None:
                    return None
                v = r
            else:
                r = _transparent(sy, v[3][1], ELEM)
                if r is None or _strip_elem(r) != ELEM:
                    return None
                v = v[3][0]
        elif k in ("try", "ref"):
            v = v[1]
        elif k == "call" and v[3] and v[1].split("::")[-1].split("<")[0] in WRAP_LAST:
            v = v[3][0]
        elif k in ("matchv",) and v[1][0] in ("fld", "param"):
            v = v[1]
        else:
            break
    path = []
    while v[0] == "fld":
        path.append(v[2])
        v = v[1]
        while v[0] == "ref":
            v = v[1]
    if v == ("param", 0) and path:
        return ["self"] + list(reversed(path))
    return None


def run(tier, config):
    rep = Report("C15")
    c = K.crate("gamedig-lib", config)
    n_impl = {"resp": 0, "player": 0}
    for im in c.impls:
        kind = TRAITS.get(im.get("trait"))
        if not kind:
            continue
        n_impl[kind] += 1
        ty = im["self_ty"]
        for name, p in sorted(im["items"].items()):
            f = c.fn(p)
            if f is None or not f.get("hir"):
                rep.add("%s|%s|body" % (ty, name), "C15:D1", False, "no body for %s::%s" % (ty, name))
                continue
            key = "<%s as %s>::%s" % (ty, im["trait"].split("::")[-1], name)
            val, sy, pr = _sym_ret(c, f)
            txt = pr.show(val) if val is not None else H.show(f["hir"]["body"])[:160]
            if name == "as_original":
                # Generic*(self), possibly through a per-version wrapper: Generic*(Versioned*::V(self)) / Generic*(version(self))
                ok = False
                if val is not None and val[0] == "ctor" and "Generic" in val[1] and len(val[2]) == 1:
                    inner = val[2][0]
                    for _ in range(3):
                        if inner[0] == "ctor" and len(inner[2]) == 1:
                            inner = inner[2][0]
                        elif inner[0] == "call" and len(inner[3]) == 1 and inner[1].split("::")[-1] == "version":
                            inner = inner[3][0]
                        else:
                            break
                    ok = inner == ("param", 0)
                rep.add(key, "C15:D3", ok, "as_original = %s" % txt, f["span"])
                continue
            if name == "as_json":
                rep.add(key, "C15:D2", False, "%s overrides as_json (the default wiring is what is checked): %s" % (ty, txt[:120]), f["span"])
                continue
            fp = field_of_value(val, sy) if val is not None else None
            allowed = SYNONYMS.get(name, {name})
            if fp is None or len(fp) < 2:
                rep.add(key, "C15:D1", False, "accessor %s of %s does not return a field of self: %s" % (name, ty, txt[:160]), f["span"])
                continue
            last = fp[-1]
            ok = last in allowed
            if name == "players_online" and last == "players" and ty not in PLAYERS_IS_COUNT:
                ok = False
            if name == "players" and last == "players" and ty in PLAYERS_IS_COUNT:
                ok = False
            rep.add(key, "C15:D1", ok, "%s -> %s" % (name, ".".join(fp)) + ("" if ok else "  (expected a field named one of %s)" % sorted(allowed)), f["span"])
    # D2 default as_json
    for tr, kind in TRAITS.items():
        f = c.fn(tr + "::as_json")
        if f is None or not f.get("hir"):
            rep.add("%s::as_json|default" % tr, "C15:D2", False, "default as_json of %s not found" % tr)
            continue
        val, sy, pr = _sym_ret(c, f)
        if val is None or val[0] != "struct":
            rep.add("%s::as_json|default" % tr, "C15:D2", False, "default as_json is not a struct value: %s" % (pr.show(val) if val is not None else "?")[:120])
            continue
        n_f = 0
        tname = tr.split("::")[-1]
        for fname, e in val[2]:
            n_f += 1
            shown = pr.show(e)
            direct = e == ("call", "%s::%s" % (tname, fname), (), (("param", 0),))
            if fname == "players":
                # self.players().map(|ps| ps.iter().map(|p| p.as_json()).collect())
                ok = ("%s::players(a0)" % tname) in shown and "CommonPlayer::as_json" in shown
            else:
                ok = direct
            rep.add("%s::as_json|%s" % (tname, fname), "C15:D2", ok, "json.%s <- %s" % (fname, shown[:100]), f["span"])
        want = 10 if kind == "resp" else 2
        rep.add("%s::as_json|fields" % tname, "C15:D2", n_f == want, "%d JSON fields wired (expected %d)" % (n_f, want), nontrivial=False)
    if config in ("baseline", "libdefault"):
        rep.floor("CommonResponse impls", n_impl["resp"], 14)
        rep.floor("CommonPlayer impls", n_impl["player"], 11)
    rep.decided = ["D1 each accessor returns the same-named (or reviewed synonym) field of its own response/player type",
                   "D2 default as_json wiring field-by-field", "D3 as_original wraps self in the Generic enum"]
    rep.not_decided = ["serde's JSON rendering of the values", "equality of values at run time (nothing is executed)"]
    return rep
