"""C15 - the protocol-independent view equals the protocol-specific data.
D1 every accessor of every CommonResponse / CommonPlayer impl returns a field of self whose name is the accessor's name or
   a reviewed synonym (after stripping Some/&/into/as_deref/...): a swapped or foreign field cannot pass;
D2 the default as_json wires each JSON field to the same-named accessor (players through CommonPlayer::as_json);
D3 as_original wraps `self` in a Generic{Response,Player} constructor.
The impl set is enumerated from the trait impl index, so a new impl is checked automatically."""
import re
from ..core import Report
from . import common as K
from .. import hirlib as H

TRAITS = {"gamedig::protocols::types::CommonResponse": "resp", "gamedig::protocols::types::CommonPlayer": "player"}
SYNONYMS = {
    "players_maximum": {"players_maximum", "player_limit", "max_players", "players_maxmimum"},   # sic: epic::Response spells its field this way
    "players_online": {"players_online", "num_players", "players"},   # mindustry ServerData.players is the online count
    "game_mode": {"game_mode", "gamemode", "game_type"},
    "game_version": {"game_version", "version_name"},
    "has_password": {"has_password", "password"},
    "name": {"name"}, "map": {"map"}, "description": {"description"}, "players_bots": {"players_bots"},
    "score": {"score"}, "players": {"players"},
}
# transparent wrappers around the field
WRAP_M = {"into", "as_deref", "as_ref", "as_str", "clone", "to_owned", "unwrap_or", "try_into", "iter", "collect", "map", "as_slice", "deref"}
# reviewed: types whose `players` is a count (so `players_online -> self.players` is right) vs a list
PLAYERS_IS_COUNT = {"games::mindustry::types::ServerData"}


def field_of(n):
    """strip wrappers, return field path list rooted at self, or None"""
    n = H.strip(n)
    while True:
        if n[0] == "call" and n[1].get("ctor", "").endswith("Option::Some") and len(n) > 3:
            n = H.strip(n[3])
            continue
        if n[0] == "mcall" and n[1]["name"] in WRAP_M:
            n = H.strip(n[2])
            continue
        if n[0] == "cast":
            n = H.strip(n[2])
            continue
        break
    return H.field_path(n)


def run(tier, config):
    rep = Report("C15")
    c = K.crate("gamedig-lib", config)
    n_impl = {"resp": 0, "player": 0}
    for im in c.impls:
        kind = TRAITS.get(im.get("trait"))
        if not kind:
            continue
        n_impl[kind] += 1
        ty = im["self_ty"]
        for name, p in sorted(im["items"].items()):
            f = c.fn(p)
            if f is None or not f.get("hir"):
                rep.add("%s|%s|body" % (ty, name), "C15:D1", False, "no body for %s::%s" % (ty, name))
                continue
            body = f["hir"]["body"]
            txt = H.show(body)
            key = "<%s as %s>::%s" % (ty, im["trait"].split("::")[-1], name)
            if name == "as_original":
                b = H.strip(body)
                inner = b
                ok = False
                depth = 0
                while inner[0] == "call" and len(inner) > 3 and depth < 4:
                    head = inner[1].get("ctor") or inner[1].get("fn") or ""
                    inner = H.strip(inner[3])
                    depth += 1
                ok = depth >= 1 and H.local_name(inner) == "self" and ("Generic" in (b[1].get("ctor") or "") )
                rep.add(key, "C15:D3", ok, "as_original = %s" % txt, f["span"])
                continue
            if name == "as_json":
                rep.add(key, "C15:D2", False, "%s overrides as_json (the default wiring is what is checked): %s" % (ty, txt[:120]), f["span"])
                continue
            fp = field_of(body)
            allowed = SYNONYMS.get(name, {name})
            if fp is None or fp[0] != "self" or len(fp) < 2:
                rep.add(key, "C15:D1", False, "accessor %s of %s does not return a field of self: %s" % (name, ty, txt[:160]), f["span"])
                continue
            last = fp[-1]
            ok = last in allowed
            if name == "players_online" and last == "players" and ty not in PLAYERS_IS_COUNT:
                ok = False
            if name == "players" and last == "players" and ty in PLAYERS_IS_COUNT:
                ok = False
            rep.add(key, "C15:D1", ok, "%s -> %s" % (name, ".".join(fp)) + ("" if ok else "  (expected a field named one of %s)" % sorted(allowed)), f["span"])
    # D2 default as_json
    for tr, kind in TRAITS.items():
        f = c.fn(tr + "::as_json")
        if f is None or not f.get("hir"):
            rep.add("%s::as_json|default" % tr, "C15:D2", False, "default as_json of %s not found" % tr)
            continue
        body = H.strip(f["hir"]["body"])
        if body[0] != "struct":
            rep.add("%s::as_json|default" % tr, "C15:D2", False, "default as_json is not a struct literal: %s" % H.show(body)[:120])
            continue
        n_f = 0
        for fld in body[2:]:
            if fld[0] != "fld":
                continue
            n_f += 1
            fname = fld[1]["name"]
            e = H.strip(fld[2])
            # players: self.players().map(|ps| ps.iter().map(|p| p.as_json()).collect())
            base = e
            via = []
            while base[0] == "mcall" and H.local_name(base[2]) != "self":
                via.append(base[1]["name"])
                base = H.strip(base[2])
            ok = base[0] == "mcall" and H.local_name(base[2]) == "self" and base[1]["name"] == fname
            if ok and fname == "players":
                ok = "as_json" in H.show(e)
            elif ok and via:
                ok = False
            rep.add("%s::as_json|%s" % (tr.split("::")[-1], fname), "C15:D2", ok, "json.%s <- %s" % (fname, H.show(e)[:100]), f["span"])
        want = 10 if kind == "resp" else 2
        rep.add("%s::as_json|fields" % tr.split("::")[-1], "C15:D2", n_f == want, "%d JSON fields wired (expected %d)" % (n_f, want), nontrivial=False)
    if config in ("baseline", "libdefault"):
        rep.floor("CommonResponse impls", n_impl["resp"], 14)
        rep.floor("CommonPlayer impls", n_impl["player"], 11)
    rep.decided = ["D1 each accessor returns the same-named (or reviewed synonym) field of its own response/player type",
                   "D2 default as_json wiring field-by-field", "D3 as_original wraps self in the Generic enum"]
    rep.not_decided = ["serde's JSON rendering of the values", "equality of values at run time (nothing is executed)"]
    return rep
