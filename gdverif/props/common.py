"""Shared helpers for property modules: ledger runs (E1/E3), reviewed rows, loop classification (E2)."""
import json, os
from .. import facts, sites as S, ledger, loops as L, cg as CG
from ..core import VERIF
from ..mirlib import Body, callee_key

_cache = {}


def crate(name="gamedig-lib", config="baseline"):
    return facts.load(config, name)


def analysis(c):
    k = ("an", id(c))
    if k not in _cache:
        _cache[k] = ledger.Analysis(c)
    return _cache[k]


def analysis_closed(c):
    """second analysis in which exported functions also get parameter summaries from their in-crate call sites
    (used only to separate reply-driven from caller-driven allocation sizes)"""
    k = ("ancw", id(c))
    if k not in _cache:
        _cache[k] = ledger.Analysis(c, closed_world=True)
    return _cache[k]


def reachable_fns(c):
    """local bodies reachable from the crate's exported functions"""
    k = ("reach", id(c))
    if k not in _cache:
        g = callgraph(c)
        roots = [f["path"] for f in c.fns if f.get("exported") or f.get("reachable")]
        _cache[k] = g.reachable_from(roots)
    return _cache[k]


def callgraph(c):
    k = ("cg", id(c))
    if k not in _cache:
        _cache[k] = CG.CallGraph(c)
    return _cache[k]


def all_sites(c):
    k = ("sites", id(c))
    if k not in _cache:
        ss = S.enumerate_sites(c)
        fnp = {S.fn_display(f): f["path"] for f in c.fns}
        res = analysis(c).evaluate(ss, fnp)
        _cache[k] = (ss, res, fnp)
    return _cache[k]


def load_reviewed():
    p = os.path.join(VERIF, "spec", "reviewed.json")
    if not os.path.exists(p):
        return {}
    with open(p) as fh:
        rows = json.load(fh)
    return {r["key"]: r for r in rows}


# ---------------------------------------------------------------- anchors of reviewed rows
def check_anchor(c, anchor, site, ctx):
    """-> (ok, detail). Each anchor names a structural fact that must still hold for the reviewed argument."""
    t = anchor["type"]
    g = callgraph(c)
    if t == "callers":
        # every call site of `callee` lies in one of the allowed functions
        callee = anchor["callee"]
        allowed = anchor["allowed"]
        hits = g.callers_of(lambda p: p.endswith(callee) or _disp(c, p).endswith(callee))
        if not hits and not anchor.get("may_be_uncalled"):
            return False, "no call site of %s found" % callee
        bad = [p for (p, _, _, _) in hits if not any(_disp(c, p).endswith(a) or p.endswith(a) for a in allowed)]
        if bad:
            return False, "%s is also called from %s" % (callee, sorted(set(_disp(c, p) for p in bad)))
        return True, "%d call site(s) of %s, all in %s" % (len(hits), callee, allowed)
    if t == "rule":
        fn = ctx.get("rules", {}).get(anchor["id"])
        if fn is None:
            return False, "rule %s is not available" % anchor["id"]
        return fn()
    if t == "guard":
        # the site is dominated by the given edge of a comparison with this canonical rendering
        f = c.fn(site.path)
        b = Body(f)
        want = anchor["cmp"]
        for bi, blk in enumerate(b.blocks):
            tt = blk["term"]
            if not tt or tt["k"] != "switch":
                continue
            r = _norm_cmp(b.render_operand(tt["d"], 5, names=False))
            if r != want and _flip(r) != want:
                continue
            flip = (r != want)
            truth = anchor["truth"] != flip if False else anchor["truth"]
            # edge for `truth`: value 0 -> false, otherwise -> true
            tgt_false = [v[1] for v in tt["vals"] if v[0] == 0]
            tgt_true = [tt["else"]] + [v[1] for v in tt["vals"] if v[0] != 0]
            tg = tgt_true if truth else tgt_false
            for x in tg:
                if x != (tgt_false + tgt_true)[0] or True:
                    if b.dominates(x, site.bb) and len(b.pred[x]) == 1:
                        return True, "dominated by the %s edge of `%s`" % (truth, want)
        return False, "no dominating %s edge of `%s` found" % (anchor["truth"], want)
    if t == "dominating-ok-call":
        f = c.fn(site.path)
        b = Body(f)
        for bi, blk in enumerate(b.blocks):
            tt = blk["term"]
            if tt and tt["k"] == "call" and "fn" in tt and callee_key(tt["fn"]).split("@")[0].endswith(anchor["callee"]):
                if tt["t"] is not None and b.dominates(tt["t"], site.bb) and bi != site.bb:
                    args = [b.render_operand(a, 4, names=False) for a in tt["args"]]
                    if "args" in anchor and args != anchor["args"]:
                        continue
                    return True, "dominated by a call to %s(%s)" % (anchor["callee"], ", ".join(args))
        return False, "no dominating call to %s" % anchor["callee"]
    if t == "const-args":
        callee = anchor["callee"]
        hits = g.callers_of(lambda p: p.endswith(callee) or _disp(c, p).endswith(callee))
        vals = set()
        for (p, bi, tt, _) in hits:
            if tt is None:
                return False, "%s is passed as a function value in %s" % (callee, _disp(c, p))
            a = tt["args"][anchor["param"]]
            if a[0] == "const" and "v" in a[1]:
                vals.add(a[1]["v"])
            else:
                return False, "non-constant argument %d of %s in %s" % (anchor["param"], callee, _disp(c, p))
        if not vals or not vals <= set(anchor["values"]):
            return False, "argument %d of %s takes values %s, reviewed set is %s" % (anchor["param"], callee, sorted(vals), anchor["values"])
        return True, "argument %d of %s is always one of %s" % (anchor["param"], callee, sorted(vals))
    if t == "str-bounds":
        # the numeric part (start <= end <= len) of a str range index is proved by the value analysis; the reviewed
        # argument only covers the char-boundary condition
        an = analysis(c)
        it = an.interp(site.path)
        st = it.state_before_term(site.bb) if it else None
        r = ledger.discharge(site, it, st, allow_str=True) if st is not None else None
        if r:
            return True, "numeric bounds proved (%s: %s)" % r
        return False, "numeric bounds start <= end <= len are no longer provable"
    if t == "fn-calls":
        # the enclosing function (or a named one) contains a call to `callee`
        path = site.path if "fn" not in anchor else [f["path"] for f in c.fns if S.fn_display(f).endswith(anchor["fn"])][0]
        base = path.split("::{closure")[0]
        for pth in [p for p in g.edges if p == base or p.startswith(base + "::{closure")]:
            for (cp, bi, tt) in g.callees(pth):
                if tt is not None and callee_key(tt["fn"]).split("@")[0].endswith(anchor["callee"]):
                    return True, "%s calls %s" % (anchor.get("fn", site.fn), anchor["callee"])
        return False, "%s no longer calls %s" % (anchor.get("fn", site.fn), anchor["callee"])
    return False, "unknown anchor type %s" % t


def _disp(c, p):
    f = c.fn(p)
    return S.fn_display(f) if f else p


def _norm_cmp(s):
    return s


def _flip(s):
    return s


def ledger_obligations(rep, c, prop, want, kinds=("assert", "call"), rules=None, label="panic-site"):
    """add one obligation per site selected by `want(site)`"""
    ss, res, fnp = all_sites(c)
    reviewed = load_reviewed()
    ctx = {"fnp": fnp, "rules": rules or {}}
    n = 0
    fns = set()
    for s in ss:
        if s.kind not in kinds or not want(s):
            continue
        n += 1
        fns.add(s.fn)
        r = res.get(s.key)
        if s.kind == "alloc":
            cls, bound, detail = r if r else ("UNBOUNDED", None, "function could not be analysed")
            if cls == "UNBOUNDED":
                f0 = c.fn(s.path)
                if f0 is not None:
                    # size comes from a parameter of a public function: bounded if every in-crate caller passes a bounded value
                    acw = analysis_closed(c)
                    it2 = acw.interp(s.path)
                    st2 = it2.state_before_term(s.bb) if it2 else None
                    if st2 is not None:
                        r2 = ledger.classify_alloc(s, it2, st2)
                        if r2[0] in ("CONST", "TYPE", "LEN"):
                            cls, bound, detail = "PARAM", r2[1], "caller-supplied size; every in-crate call site passes a bounded value: " + r2[2]
                if cls == "UNBOUNDED" and s.path not in reachable_fns(c):
                    cls, detail = "UNREACHABLE", "function is not reachable from any public entry point (dead code): " + detail
            ok = cls in ("CONST", "TYPE", "LEN", "PARAM", "UNREACHABLE")
            rule = "E3:" + cls
            if ok:
                rep.add(s.key, rule, True, detail, s.at, nontrivial=(cls != "CONST"))
                continue
            r = None
            fail_detail = detail
        else:
            fail_detail = "no discharge rule applies (operands: %s)" % s.readable
        if r is not None:
            rep.add(s.key, "E1:" + r[0], True, r[1], s.at, nontrivial=r[0] not in ("R-CONST", "TRUSTED-STD-MACRO"))
            continue
        row = reviewed.get(s.key)
        if row and prop in row.get("props", [prop]):
            oks = []
            bad = None
            for a in row.get("anchors", []):
                ok, d = check_anchor(c, a, s, ctx)
                if not ok:
                    bad = d
                    break
                oks.append(d)
            if bad is None:
                rep.add(s.key, "REVIEWED", True, "%s [%s]" % (row["reason"], "; ".join(oks)), s.at)
            else:
                rep.add(s.key, "REVIEWED", False, "reviewed argument no longer holds: %s (%s)" % (bad, row["reason"]), s.at)
            continue
        rep.add(s.key, "E1:undischarged" if s.kind != "alloc" else "E3:UNBOUNDED", False,
                "%s %s in %s: %s" % (label, s.what, s.fn, fail_detail), s.at)
    rep.count(label + "s", n)
    rep.count("functions_with_" + label + "s", len(fns))
    return n


def loop_obligations(rep, c, want_fn=lambda f: True):
    g = callgraph(c)
    n = 0
    for f in c.fns:
        if "mir" not in f or f["macro"].startswith("X:") or f["kind"] not in ("Fn", "AssocFn", "Closure"):
            continue
        if not want_fn(f):
            continue
        for li in L.classify(c, g, f):
            n += 1
            key = "%s|loop|%s" % (S.fn_display(f), _loop_ord(f, li))
            if li.cls:
                rep.add(key, "E2:" + li.cls, True, li.detail, li.at)
            else:
                rep.add(key, "E2:unclassified", False, "loop in %s: %s" % (S.fn_display(f), li.detail), li.at)
    rep.count("loops", n)
    return n


def _loop_ord(f, li):
    # ordinal of the loop within the function by head block order (stable under edits elsewhere)
    b = Body(f)
    heads = [h for h, _ in b.loops()]
    return "#%d/%d" % (heads.index(li.head) + 1, len(heads))
