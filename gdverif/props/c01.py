"""C01 - hostile replies never crash or hang a query.
D1 every panic site (MIR Assert / may-panic call / explicit panic) in every non-derive body of the library is
   discharged by the value analysis, a verified reviewed row, or is an exact-key known finding;
D2 every loop has an exit forced by silence / input exhaustion / a finite iterator / a counter;
D3 no recursion other than the reviewed set (stack exhaustion is otherwise assumed away)."""
from ..core import Report
from . import common as K
from .. import sites as S

# sites that depend on caller-supplied settings, not on replies: decided under C18
SETTINGS_SITES = ("::apply_timeout|unwrap:", "utils::retry_on_timeout|overflow:Add")
# arithmetic on Durations only ever involves the caller's timeout settings: decided under C18 as well as C01
DURATION_MARK = "@Duration"


def is_settings_site(s):
    return any(x in s.key for x in SETTINGS_SITES)


def out_of_scope(s):
    """the opt-in `packet_capture` debugging feature (pcap writer) is not part of any property's anchors; its sites are
    counted in the evidence of the thorough tier but not decided"""
    return s.fn.startswith("gamedig::capture::")


def run(tier, config):
    rep = Report("C01")
    c = K.crate("gamedig-lib", config)
    from . import c17
    rules = c17.rules_for(c)
    n = K.ledger_obligations(rep, c, "C01", lambda s: not is_settings_site(s) and not out_of_scope(s), rules=rules)
    ss_all, _, _ = K.all_sites(c)
    n_oos = sum(1 for s in ss_all if out_of_scope(s) and s.kind in ("assert", "call"))
    if n_oos:
        rep.count("out_of_scope_sites_packet_capture", n_oos)
        rep.notes.append("%d panic sites in gamedig::capture (feature packet_capture, config %s) are outside the property's scope and not decided" % (n_oos, config))
    nl = K.loop_obligations(rep, c, lambda f: not f["path"].startswith("gamedig::capture::"))
    g = K.callgraph(c)
    sccs = [sorted(x) for x in g.sccs()]
    sccs = [x for x in sccs if not all((c.fn(p) or {}).get("macro", "").startswith("X:") for p in x)]
    # the capture wrappers forward each Socket method to an inner `impl Socket`; closing trait dispatch over all impls makes
    # that look like self-recursion, which it is not (the inner type is never the wrapper itself)
    sccs = [x for x in sccs if not all(p.startswith("gamedig::capture::") for p in x)]
    for comp in sccs:
        rep.add("recursion|" + ",".join(comp), "E2:no-recursion", False,
                "recursive call cycle in the library (unbounded stack depth is not analysed): %s" % comp)
    rep.add("recursion|none", "E2:no-recursion", True, "call graph of hand-written library bodies is acyclic", nontrivial=False) if not sccs else None
    if config == "baseline":
        rep.floor("panic sites in gamedig", n, 60)
        rep.floor("loops in gamedig", nl, 40)
    bodies = sum(1 for f in c.fns if "mir" in f and not f["macro"].startswith("X:"))
    rep.count("bodies_analysed", bodies)
    rep.decided = [
        "D1 totality: every MIR Assert (overflow/bounds/div) and every call into the may-panic table in every hand-written or "
        "local-macro body of crate gamedig is discharged (interval+zone abstract interpretation with inferred callee contracts, "
        "reviewed rows whose anchors are re-verified), else reported",
        "D2 every natural loop matches an exit class (receive-driven, input-driven, finite iterator, counter, grow-to-index)",
        "D3 the call graph of those bodies has no recursion"]
    rep.not_decided = [
        "panics inside dependencies/std beyond the may-panic table", "allocation-failure aborts (C13)",
        "wall-clock return (C12 decides the timeout wiring only)", "a server that never goes silent"]
    return rep
