"""C19 - the CLI prints a well-formed document or a clean error.
D1 no Result of a local function of the CLI is discarded (every call's Result reaches `?`, a match or the return
   value), and main returns Result so failures exit non-zero with a message;
D2 every panic site in the CLI crate is discharged (reviewed rows for the writer/BSON invariants);
D3 every argument of an XML element constructor (BytesStart::new / BytesEnd::new) is a literal or sanitised: server
   supplied map keys must not become element names verbatim."""
from ..core import Report
from . import common as K
from .. import mirq as Q
from ..mirlib import Body, callee_key


def _uses_of(b, local):
    """count reads of `local` (operands, discriminant reads, refs), excluding drops and storage"""
    n = 0

    def op_uses(op):
        return 1 if op and op[0] in ("copy", "move") and op[1][0] == local else 0
    for blk in b.blocks:
        if blk["cleanup"]:
            continue
        for s in blk["stmts"]:
            if s["k"] != "assign":
                continue
            rv = s["rv"]
            for op in Q._rv_ops(rv):
                n += op_uses(op)
            if rv[0] in ("ref", "rawptr") and rv[-1][0] == local:
                n += 1
            if rv[0] == "discr" and rv[1][0] == local:
                n += 1
            if rv[0] == "cast":
                pass
        t = blk["term"]
        if t:
            if t["k"] == "call":
                for a in t["args"]:
                    n += op_uses(a)
            elif t["k"] == "switch":
                n += op_uses(t["d"])
    return n


def run(tier, config):
    rep = Report("C19")
    c = K.crate("gamedig_cli-bin", "baseline")
    # D1 dropped results
    n_calls = 0
    for f in Q.bodies(c):
        b = Body(f)
        for bi, t, k in Q.calls(f):
            fn = t["fn"]
            if not (fn.get("local") and fn.get("res")):
                continue
            dl, proj = t["dest"]
            ty = b.locals[dl]["ty"]
            if not (ty.startswith("std::result::Result<") or ty.startswith("core::result::Result<") or ty.startswith("Result<")):
                continue
            n_calls += 1
            used = dl == 0 or _uses_of(b, dl) > 0
            rep.add("%s|result-of|%s" % (Q.disp(f), k), "C19:D1", used,
                    "Result of %s is consumed (`?`, match or returned)" % k if used else
                    "Result of %s is dropped: a failing writer prints nothing and the process exits 0" % k, t.get("at"))
    mainf = c.fn("gamedig_cli::main")
    ok = bool(mainf) and mainf["mir"]["ret_ty"].startswith(("std::result::Result<", "core::result::Result<", "Result<"))
    rep.add("gamedig_cli::main|returns-result", "C19:D1", ok, "main returns %s" % (mainf["mir"]["ret_ty"] if mainf else "?"), nontrivial=False)
    # D2 ledger
    n = K.ledger_obligations(rep, c, "C19", lambda s: True, kinds=("assert", "call"))
    K.loop_obligations(rep, c)
    # D2b the flag value parsers live in the library (clap `value_parser = ...`): an invalid flag value must come back as a
    # parse error, so their panic sites are part of this property too
    lib = K.crate("gamedig-lib", "baseline")
    vp = set()
    for g in Q.bodies(lib, True):
        if g.get("impl_trait") == "clap_builder::derive::Args" and g["name"] in ("augment_args", "augment_args_for_update"):
            gb = Body(g)
            for bj, t, k in Q.calls(g):
                if k.startswith("Arg::value_parser") and len(t["args"]) > 1:
                    r = gb.render_operand(t["args"][1], 3, names=False)
                    if r.startswith("fn:"):
                        tail = r[3:]
                        for f2 in lib.fns:
                            if f2["kind"] == "Fn" and f2["path"].endswith("::" + tail):
                                vp.add(f2["path"])
    from .. import sites as S
    n_vp = K.ledger_obligations(rep, lib, "C19", lambda s_: s_.path in vp, kinds=("assert", "call"), label="flag-parser-site") if vp else 0
    rep.count("flag_value_parsers", len(vp))
    rep.add("cli|flag-value-parsers-found", "C19:D2b", len(vp) >= 1, "value parsers of the CLI flags defined in the library: %s" % sorted(x.split("gamedig::")[-1] for x in vp), nontrivial=False)
    # D3 XML names
    n_xml = 0
    for f in Q.bodies(c):
        b = Body(f)
        for bi, t, k in Q.calls(f):
            base = k.split("@")[0]
            if base in ("BytesStart::new", "BytesEnd::new", "BytesStart::from_content"):
                n_xml += 1
                r = b.render_operand(t["args"][0], 6, names=False)
                lit = r.startswith("'") or r.startswith("\"") or r.startswith("&*'") or "Cow::Borrowed" in r and "'" in r
                sanitised = any(x in r for x in ("sanitize", "sanitise", "escape", "xml_name"))
                rep.add("%s|xml-name|%s|%s" % (Q.disp(f), base, r[:60]), "C19:D3", bool(lit or sanitised),
                        "element name is %s" % ("a literal" if lit else "sanitised") if (lit or sanitised) else
                        "element name %s comes from the serialised data (map keys such as server rule names) without sanitising: not every key is a valid XML name" % r[:80], t.get("at"))
    from .. import tracespec as TS
    TS.compare(rep, c, "C19", "C19:flow-table")
    rep.floor("local Result-returning call sites", n_calls, 10)
    rep.floor("XML element constructor sites", n_xml, 4)
    rep.floor("panic sites in the CLI", n, 3)
    rep.decided = ["D1 no output/lookup Result is dropped; main returns Result", "D2 panic sites in the CLI crate are discharged or reviewed",
                   "D3 provenance of XML element names"]
    rep.not_decided = ["well-formedness and faithfulness of the JSON/XML/BSON text for arbitrary characters (serialiser behaviour)",
                       "observed exit statuses (nothing is executed)"]
    return rep


EXTRA_CONFIGS = []
