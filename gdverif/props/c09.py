"""C09 - requests are the protocol's, go to the right port, echo challenges.
D1 every request builder / sender agrees with its reviewed table (literal bytes, framing, byte order of every field,
   challenge placement), and Socket::send is called only from the tabled functions;
D2 every public (address, port) entry point builds SocketAddr::new(*address, port.unwrap_or(K)) and passes it on
   unchanged, or forwards (address, port) unchanged; the socket sends to / connects to the stored address;
D3 challenge echo: the tables pin that the Valve challenge payload and the GameSpy 3 challenge integer are moved,
   not transformed, into the next request."""
from ..core import Report
from . import common as K
from .. import tracespec as TS, mirq as Q, ports as P
from ..cg import is_socket_send
from ..mirlib import Body

DECIDED = ["D1 request bytes/layouts equal the reviewed tables; no send outside the tabled functions",
           "D2 address/port provenance at every public (address, port) entry point; sockets use the stored address",
           "D3 challenge values reach the next request through moves only (tabled)"]
NOT = ["value-dependent behaviour of echoed bytes for all 2^32 challenges (there is none on a move-only path, which is what D3 pins)",
       "what actually goes over the wire at run time"]


def run(tier, config):
    rep = Report("C09")
    c = K.crate("gamedig-lib", config)
    nf, nr = TS.compare(rep, c, "C09", "C09:table")
    # D1b: every Socket::send call site of the crate was evaluated as part of some tabled unit's term (directly or through
    # inlined helpers): nothing is emitted from code no table describes
    from .. import sites as S
    seen = TS.send_sites_seen(c)
    n_send = 0
    for f in Q.bodies(c):
        if f["path"].startswith(("gamedig::socket::", "gamedig::capture::")) or "::tests::" in f["path"]:
            continue
        for bi, t, k in Q.calls(f):
            p = t["fn"].get("res") or t["fn"]["raw"]
            if not (is_socket_send(p) or p == "gamedig::socket::Socket::send"):
                continue
            n_send += 1
            name = S.fn_display(f)
            ok = t.get("at") in seen
            rep.add("%s|send-site" % name, "C09:D1", ok,
                    "send site is part of a reviewed request table" if ok else
                    "Socket::send is called in %s, which no reviewed request table reaches: the client may emit something the protocol does not define" % name, t.get("at"))
    # D2 ports
    eps = P.entry_points(c)
    for e in eps:
        name = Q.disp(e["fn"])
        ok = e["kind"] in ("constructs", "forwards", "forwards-via")
        if not ok and "games::minetest::" in name:
            # (all-features only) Minetest is answered from the master-server list: no datagram is sent to the address at all
            ok, e["detail"] = True, "looks the (address, port) pair up in the master-server list; nothing is sent to the address"
        rep.add("%s|address-port" % name, "C09:D2", ok, e["detail"], e["fn"]["span"], nontrivial=(e["kind"] == "constructs"))
    # sockets use the stored address
    for im in c.impls:
        if im.get("trait") != "gamedig::socket::Socket" or "socket::" not in im["self_ty"] or "capture::" in im["self_ty"]:
            continue
        newf = c.fn(im["items"]["new"])
        sendf = c.fn(im["items"]["send"])
        if newf is None or sendf is None:
            continue
        b = Body(newf)
        stored = None
        for bi, s, kd, ops in Q.aggregates(newf):
            if "address" in kd["fields"]:
                stored = b.render_operand(ops[kd["fields"].index("address")], 4, names=False)
        ok = stored == "*arg1"
        rep.add("%s|stores-address" % Q.disp(newf), "C09:D2", ok, "socket stores address = %s" % stored, newf["span"])
        if im["self_ty"].endswith("UdpSocketImpl"):
            b2 = Body(sendf)
            tgt = [b2.render_operand(t["args"][2], 4, names=False) for bi, t, k in Q.calls(sendf) if k.startswith("UdpSocket::send_to")]
            rep.add("%s|send-to" % Q.disp(sendf), "C09:D2", tgt == ["*arg1.address"] or tgt == ["arg1.address"] or (len(tgt) == 1 and tgt[0].endswith(".address")),
                    "send_to target = %s" % tgt, sendf["span"])
        else:
            conn = []
            for g in Q.bodies(c):
                if g["path"].startswith(newf["path"]):
                    for bi, t, k in Q.calls(g):
                        if k.startswith("TcpStream::connect"):
                            conn.append(Body(g).render_operand(t["args"][0], 4, names=False))
            rep.add("%s|connect-to" % Q.disp(newf), "C09:D2", bool(conn) and all(x in ("arg1", "*arg1.0", "arg1.0", "*arg1") or "arg1" in x for x in conn),
                    "connect target = %s" % conn, newf["span"])
    if config == "baseline":
        rep.floor("request tables", nf, 40)
        rep.floor("send call sites", n_send, 14)
        rep.floor("public (address, port) entry points", len(eps), 100)
    rep.decided, rep.not_decided = DECIDED, NOT
    return rep
