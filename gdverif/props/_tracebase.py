"""Shared runner for the table-agreement properties (C02-C07, C09, C16): compare extracted traces with reviewed tables."""
from ..core import Report
from . import common as K
from .. import tracespec as TS


def run_tables(prop, config, decided, not_decided, floor_fns, floor_rows, extra=None):
    rep = Report(prop)
    c = K.crate("gamedig-lib", config)
    nf, nr = TS.compare(rep, c, prop, "%s:table" % prop)
    TS.coverage(rep, c, prop, "%s:coverage" % prop)
    if extra:
        extra(rep, c, config)
    if config == "baseline":
        rep.floor("functions compared with reviewed tables", nf, floor_fns)
        rep.floor("table rows", nr, floor_rows)
    rep.decided = decided
    rep.not_decided = not_decided
    rep.trusted = ["rustc typed HIR + callee/generic resolution", "gdfacts dump", "the reviewed tables in /verif/spec/traces (provenance recorded per table)"]
    return rep
