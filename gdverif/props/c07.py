"""C07 - decode tables: the ordered, typed wire reads / key lookups / field destinations of every parser of this
protocol family agree row by row with the reviewed tables in spec/traces/C07.json (E4/E5)."""
from ._tracebase import run_tables

FLOOR_FNS = 21
FLOOR_ROWS = 222

DECIDED = ["every parser's schedule (order, width, signedness, byte order, string decoder and delimiter, skip widths, guards and masks, "
           "key names, index positions, conversions) and the response field each value lands in equal the reviewed table; "
           "struct-to-struct projections are field-for-field as tabled"]
NOT = ["that decoded values equal the server's for every state (UTF-8/UTF-16 handling, float bits, bzip2, serde_json) - needs execution",
       "rows of 'pinned tree' provenance detect change, not an original mistake"]


def run(tier, config):
    return run_tables("C07", config, DECIDED, NOT, FLOOR_FNS, FLOOR_ROWS)
