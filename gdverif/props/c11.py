"""C11 - gather toggles and the app-id check.
D1 every section request function is called only inside the Try / Enforce arm of a match on the matching settings
   field and its result lands in the matching response field;
D2 Skip arm: no call, None; Try arm: `.ok()` and no `?`; Enforce arm: `Some(call?)`;
D3 BadGame is produced only under check_app_id && !is_specified_id, and is_specified_id becomes true only under
   equality of the reported app id with one of the expected ids (value analysis of get_response);
D4 Unreal 2 sequencing: server info unconditionally first; skipped/failed sections default."""
import re
from ..core import Report
from . import common as K
from .. import hirlib as H, mirq as Q
from ..mirlib import Body, callee_key

# (section request fn suffix, settings field, response field)
SECTIONS = [
    ("valve::protocol::{impl#1}::get_server_players", "players", "players"),
    ("valve::protocol::{impl#1}::get_server_rules", "rules", "rules"),
    ("unreal2::protocol::{impl#0}::query_mutators_and_rules", "mutators_and_rules", "mutators_and_rules"),
    ("unreal2::protocol::{impl#0}::query_players", "players", "players"),
]
TOGGLE = "gamedig::protocols::types::GatherToggle::"


def _arm_variant(arm):
    pat = arm[2]
    for n, _ in H.walk(pat):
        if n[0] == "path" and n[1].get("res", "").startswith(TOGGLE):
            return n[1]["res"][len(TOGGLE):].split("::")[0]
        if n[0] in ("pstruct", "ptstruct") and n[1].get("res", "").startswith(TOGGLE):
            return n[1]["res"][len(TOGGLE):].split("::")[0]
    return None


def _dest_of(parents):
    """name of the struct field / let binding the match value flows into"""
    for p in reversed(parents):
        if p[0] == "fld":
            return p[1]["name"]
        if p[0] == "let":
            pat = p[2]
            if pat[0] == "pbind":
                return pat[1]["name"]
            return None
        if p[0] in ("stmt", "closure", "arm", "if", "loop"):
            return None
    return None


def run(tier, config):
    rep = Report("C11")
    c = K.crate("gamedig-lib", config)
    sect_fns = {s[0]: s for s in SECTIONS}
    seen_calls = {}
    n_match = 0
    for f in c.fns:
        body = H.body_of(f)
        if body is None or f["macro"].startswith("X:") or "::tests::" in f["path"]:
            continue
        fname = Q.disp(f)
        # all calls to section functions in this body
        sect_calls = []
        for n, parents in H.walk(body):
            cal = H.callee(n)
            if cal:
                for suf in sect_fns:
                    if cal.endswith(suf):
                        sect_calls.append((n, parents, suf))
        in_arm = set()
        for n, parents in H.walk(body):
            if n[0] != "match" or n[1].get("src") != "normal":
                continue
            scrut = n[2]
            if "GatherToggle" not in scrut[1].get("ty", ""):
                continue
            n_match += 1
            fp = H.field_path(scrut)
            field = fp[-1] if fp else None
            dest = _dest_of(parents)
            arms = {}
            for arm in n[3:]:
                v = _arm_variant(arm)
                arms[v] = arm[-1]
            key0 = "%s|toggle|%s" % (fname, field)
            if set(arms) != {"Skip", "Try", "Enforce"}:
                rep.add(key0 + "|arms", "C11:D2", False, "match on a GatherToggle with arms %s (expected Skip/Try/Enforce)" % sorted(map(str, arms)), n[1].get("at"))
                continue
            # Skip arm: no call at all, value None
            skip = H.strip(arms["Skip"])
            skip_calls = [x for x, _ in H.walk(arms["Skip"]) if x[0] in ("call", "mcall")]
            ok = skip[0] == "path" and skip[1].get("res", "").startswith("core::option::Option::None") and not skip_calls
            rep.add(key0 + "|skip", "C11:D2", ok, "Skip arm is `None` with no call" if ok else "Skip arm is not a bare None (it contains %d call(s))" % len(skip_calls), n[1].get("at"))
            # Try arm: Result::ok(<call>) with no `?`
            tr = H.strip(arms["Try"])
            t_ok = tr[0] == "mcall" and (H.declared_callee(tr) or "").endswith("result::{impl#0}::ok")
            t_call = H.strip(tr[2]) if t_ok else None
            t_has_try = any(H.is_try(x) for x, _ in H.walk(arms["Try"]))
            t_callee = H.callee(t_call) if t_call is not None else None
            rep.add(key0 + "|try", "C11:D2", bool(t_ok and t_callee and not t_has_try),
                    "Try arm is `%s(..).ok()` without `?`" % (t_callee or "?").split("::")[-1] if (t_ok and not t_has_try)
                    else "Try arm must be `<section request>.ok()` with no `?` (a failing section must leave the rest intact)", n[1].get("at"))
            # Enforce arm: Some(<call>?)
            en = H.strip(arms["Enforce"])
            e_ok = en[0] == "call" and en[1].get("ctor") == "core::option::Option::Some" and len(en) > 3 and H.is_try(en[3])
            e_call = H.strip(H.try_inner(en[3])) if e_ok else None
            e_callee = H.callee(e_call) if e_call is not None else None
            rep.add(key0 + "|enforce", "C11:D2", bool(e_ok and e_callee),
                    "Enforce arm is `Some(%s(..)?)`" % (e_callee or "?").split("::")[-1] if e_ok else
                    "Enforce arm must be `Some(<section request>?)` (its failure must fail the query)", n[1].get("at"))
            # D1: same section function in both arms, matching field and destination
            suf = None
            for s in sect_fns:
                if t_callee and t_callee.endswith(s):
                    suf = s
            if t_callee and e_callee and (t_callee != e_callee):
                rep.add(key0 + "|same-fn", "C11:D1", False, "Try arm calls %s but Enforce arm calls %s" % (t_callee, e_callee), n[1].get("at"))
            if suf:
                _, want_field, want_dest = sect_fns[suf]
                rep.add(key0 + "|pairing", "C11:D1", field == want_field and dest == want_dest,
                        "section %s is governed by settings.%s and stored in response.%s (expected %s / %s)" % (
                            suf.split("::")[-1], field, dest, want_field, want_dest), n[1].get("at"))
                for (cn, cparents, csuf) in sect_calls:
                    if any(p is arms["Try"] or p is arms["Enforce"] for p in cparents) or cn is t_call or cn is e_call:
                        in_arm.add(id(cn))
            elif t_callee:
                # a toggle guarding something else (e.g. utils tests) is fine; record it
                rep.add(key0 + "|other", "C11:D1", True, "toggle guards %s" % t_callee, n[1].get("at"), nontrivial=False)
        for (cn, cparents, csuf) in sect_calls:
            key = "%s|section-call|%s" % (fname, csuf.split("::")[-1])
            seen_calls[csuf] = seen_calls.get(csuf, 0) + 1
            if id(cn) in in_arm:
                rep.add(key + "|guarded", "C11:D1", True, "call is inside a Try/Enforce arm of its toggle", cn[1].get("at"))
            else:
                rep.add(key + "|unguarded", "C11:D1", False,
                        "%s is called outside the Try/Enforce arms of a GatherToggle match: a Skip-ped section would still be requested" % csuf.split("::")[-1], cn[1].get("at"))
    # ---- D3 app-id check, decided on the canonical term of the public valve query (sym.py): get_response is inlined there,
    # so the rule sees the decision however it is spelled (flag variable, boolean expression, early returns)
    from .. import sym as SY, tracespec as TS
    import re as _re
    vq = c.fn("gamedig::protocols::valve::protocol::query")
    if vq is None:
        rep.add("gamedig::protocols::valve::protocol::query|app-id", "C11:D3", False, "valve::query not found")
    else:
        units, g2 = TS.all_units(c)
        sy = SY.Sym(c, lambda q: q in units, g2)
        eff = sy.run_unit(vq)
        pr = SY.Printer(sy)
        order = []   # (position, kind, payload, ctx)

        def walk(es, ctx):
            for e in es:
                k = e[0]
                if k == "guard":
                    fails = [x for x in e[2] if x[0] == "fail"]
                    order.append(("guard", e, ctx, [pr.show(x[1]) for x in fails]))
                    walk([x for x in e[2] if x[0] != "fail"], ctx + ["unless"])
                elif k == "ret":
                    order.append(("ret", e, ctx, None))
                elif k == "fail":
                    order.append(("fail", e, ctx, [pr.show(e[1])]))
                elif k == "if":
                    walk(e[2], ctx + ["if(%s)" % pr.show(e[1])]); walk(e[3], ctx + ["else(%s)" % pr.show(e[1])])
                elif k == "match":
                    for pat, g_, sub in e[2]:
                        walk(sub, ctx + ["match(%s)=>%s" % (pr.show(e[1]), pat)])
                elif k == "loop":
                    walk(e[5], ctx + ["loop"])
                elif k == "op":
                    order.append(("op", e, ctx, sy.ops[e[1]].name))
                # scopes are returns of inlined callees, not of the query: not descended into for `ret`
        walk(eff, [])
        bad = [(i_, o) for i_, o in enumerate(order) if o[0] in ("guard", "fail") and o[3] and any("BadGame" in x for x in o[3])]
        base = "gamedig::protocols::valve::protocol::query|app-id"
        if len(bad) != 1 or bad[0][1][0] != "guard":
            rep.add(base + "|site", "C11:D3", False, "expected exactly one guarded BadGame failure in the valve query, found %d" % len(bad), vq["span"])
        else:
            pos, (kind, e, ctx, _) = bad[0]
            failcond = pr.show(sy.mk_not(e[1]))
            m = _re.match(r"^\(Not\(\(\(Some\((?P<i>.+)\.appid\) Eq a1\.Source\.Some\[1\]\) Or \(a1\.Source\.Some\[0\] Eq (?P=i)\.appid\)\)\) And (?P<s>.+)\.check_app_id\)$", failcond)
            rep.add(base + "|guard", "C11:D3", bool(m),
                    "BadGame exactly when check_app_id and the reported app id is neither the expected id nor the dedicated-server id" if m else
                    "BadGame is raised under %s - expected check_app_id And Not(info.appid is the expected id Or the dedicated id)" % failcond, e[3])
            in_engine = any(x.startswith("match(a1)=>Engine::Source(Some(") for x in ctx)
            rep.add(base + "|only-for-known-ids", "C11:D3", in_engine, "the comparison sits under Engine::Source(Some(ids)) (contexts: %s)" % ctx, e[3])
            extra = [x for x in ctx if not x.startswith("match(a1)=>Engine::Source(Some(")]
            rep.add(base + "|unconditional", "C11:D3", not extra,
                    "the app-id decision is taken for every setting of the gather toggles" if not extra else
                    "the app-id decision is only reached under %s: for the other settings the check is skipped" % extra[:2], e[3])
            if m:
                info_src = m.group("i")
                settings_src = m.group("s")
                rep.add(base + "|settings", "C11:D3", "a2" in settings_src, "check_app_id is read from the caller's gather settings (%s)" % settings_src, e[3], nontrivial=False)
            # must-pass-through: no success return and no section request before the decision
            early = [o for i_, o in enumerate(order[:pos]) if o[0] == "ret"]
            sect = [o for i_, o in enumerate(order[:pos]) if o[0] == "op" and any(x in o[3] for x in ("get_server_players", "get_server_rules"))]
            rep.add(base + "|pass-through", "C11:D3", not early and not sect,
                    "no success return and no players/rules request precedes the app-id decision" if not early and not sect else
                    "%d success return(s) / %d section request(s) can happen before the app-id decision: for some settings the check is skipped" % (len(early), len(sect)), e[3])
        others = [(g, v) for (g, bi, v, at) in Q.enum_values(c, "gamedig::errors::kind::GDErrorKind") if v == "BadGame" and not g["path"].startswith("gamedig::protocols::valve::protocol::get_response") and "tests" not in g["path"] and not g["path"].startswith("gamedig::errors")]
        rep.add("BadGame|constructors", "C11:D3", not others, "BadGame constructed only in get_response" if not others else "BadGame also constructed in %s" % [Q.disp(g) for g, _ in others])
    # ---- D4 Unreal 2 sequencing
    uq = c.fn("gamedig::protocols::unreal2::protocol::{impl#0}::query")
    if uq is None:
        rep.add("unreal2::query|sequence", "C11:D4", False, "Unreal2Protocol::query not found")
    else:
        order = []
        for n, parents in H.walk(H.body_of(uq)):
            cal = H.callee(n)
            if cal and cal.split("::")[-1] in ("query_server_info", "query_mutators_and_rules", "query_players"):
                guarded = any(p[0] == "match" and "GatherToggle" in p[2][1].get("ty", "") for p in parents)
                order.append((cal.split("::")[-1], guarded))
        names = [x for x, _ in order]
        ok = names[:1] == ["query_server_info"] and order[0][1] is False and names.index("query_mutators_and_rules") < names.index("query_players") if \
            ("query_mutators_and_rules" in names and "query_players" in names and names) else False
        rep.add("gamedig::protocols::unreal2::protocol::Unreal2Protocol::query|sequence", "C11:D4", ok,
                "request order %s; server info is unconditional" % names, uq["span"])
        defaults = [H.declared_callee(n) for n, _ in H.walk(H.body_of(uq)) if n[0] == "mcall" and n[1].get("name") in ("unwrap_or_default", "unwrap_or_else", "unwrap_or")]
        rep.add("gamedig::protocols::unreal2::protocol::Unreal2Protocol::query|defaults", "C11:D4", len(defaults) >= 2,
                "skipped/failed sections fall back to defaults via %s" % [d.split("::")[-1] for d in defaults if d], uq["span"])
    if config == "baseline":
        rep.floor("GatherToggle matches", n_match, 4)
        rep.floor("section request call sites", sum(seen_calls.values()), 8)
    rep.decided = ["D1 section requests only inside the Try/Enforce arm of their own toggle, stored in their own field",
                   "D2 arm shapes: Skip=None without call, Try=.ok() without ?, Enforce=Some(call?)",
                   "D3 BadGame only under check_app_id && !is_specified_id; is_specified_id only under app-id equality",
                   "D4 Unreal 2 request order and defaults"]
    rep.not_decided = ["wire-level absence of a skipped request (follows from D1 with C09)", "error kinds of arbitrary section failures"]
    return rep
