"""C11 - gather toggles and the app-id check.
D1 every section request function is called only inside the Try / Enforce arm of a match on the matching settings
   field and its result lands in the matching response field;
D2 Skip arm: no call, None; Try arm: `.ok()` and no `?`; Enforce arm: `Some(call?)`;
D3 BadGame is produced only under check_app_id && !is_specified_id, and is_specified_id becomes true only under
   equality of the reported app id with one of the expected ids (value analysis of get_response);
D4 Unreal 2 sequencing: server info unconditionally first; skipped/failed sections default."""
import re
from ..core import Report
from . import common as K
from .. import hirlib as H, mirq as Q
from ..mirlib import Body, callee_key

# (section request fn suffix, settings field, response field)
SECTIONS = [
    ("valve::protocol::{impl#1}::get_server_players", "players", "players"),
    ("valve::protocol::{impl#1}::get_server_rules", "rules", "rules"),
    ("unreal2::protocol::{impl#0}::query_mutators_and_rules", "mutators_and_rules", "mutators_and_rules"),
    ("unreal2::protocol::{impl#0}::query_players", "players", "players"),
]
TOGGLE = "gamedig::protocols::types::GatherToggle::"


def _arm_variant(arm):
    pat = arm[2]
    for n, _ in H.walk(pat):
        if n[0] == "path" and n[1].get("res", "").startswith(TOGGLE):
            return n[1]["res"][len(TOGGLE):].split("::")[0]
        if n[0] in ("pstruct", "ptstruct") and n[1].get("res", "").startswith(TOGGLE):
            return n[1]["res"][len(TOGGLE):].split("::")[0]
    return None


def _dest_of(parents):
    """name of the struct field / let binding the match value flows into"""
    for p in reversed(parents):
        if p[0] == "fld":
            return p[1]["name"]
        if p[0] == "let":
            pat = p[2]
            if pat[0] == "pbind":
                return pat[1]["name"]
            return None
        if p[0] in ("stmt", "closure", "arm", "if", "loop"):
            return None
    return None


def run(tier, config):
    rep = Report("C11")
    c = K.crate("gamedig-lib", config)
    sect_fns = {s[0]: s for s in SECTIONS}
    seen_calls = {}
    n_match = 0
    for f in c.fns:
        body = H.body_of(f)
        if body is None or f["macro"].startswith("X:") or "::tests::" in f["path"]:
            continue
        fname = Q.disp(f)
        # all calls to section functions in this body
        sect_calls = []
        for n, parents in H.walk(body):
            cal = H.callee(n)
            if cal:
                for suf in sect_fns:
                    if cal.endswith(suf):
                        sect_calls.append((n, parents, suf))
        in_arm = set()
        for n, parents in H.walk(body):
            if n[0] != "match" or n[1].get("src") != "normal":
                continue
            scrut = n[2]
            if "GatherToggle" not in scrut[1].get("ty", ""):
                continue
            n_match += 1
            fp = H.field_path(scrut)
            field = fp[-1] if fp else None
            dest = _dest_of(parents)
            arms = {}
            for arm in n[3:]:
                v = _arm_variant(arm)
                arms[v] = arm[-1]
            key0 = "%s|toggle|%s" % (fname, field)
            if set(arms) != {"Skip", "Try", "Enforce"}:
                rep.add(key0 + "|arms", "C11:D2", False, "match on a GatherToggle with arms %s (expected Skip/Try/Enforce)" % sorted(map(str, arms)), n[1].get("at"))
                continue
            # Skip arm: no call at all, value None
            skip = H.strip(arms["Skip"])
            skip_calls = [x for x, _ in H.walk(arms["Skip"]) if x[0] in ("call", "mcall")]
            ok = skip[0] == "path" and skip[1].get("res", "").startswith("core::option::Option::None") and not skip_calls
            rep.add(key0 + "|skip", "C11:D2", ok, "Skip arm is `None` with no call" if ok else "Skip arm is not a bare None (it contains %d call(s))" % len(skip_calls), n[1].get("at"))
            # Try arm: Result::ok(<call>) with no `?`
            tr = H.strip(arms["Try"])
            t_ok = tr[0] == "mcall" and (H.declared_callee(tr) or "").endswith("result::{impl#0}::ok")
            t_call = H.strip(tr[2]) if t_ok else None
            t_has_try = any(H.is_try(x) for x, _ in H.walk(arms["Try"]))
            t_callee = H.callee(t_call) if t_call is not None else None
            rep.add(key0 + "|try", "C11:D2", bool(t_ok and t_callee and not t_has_try),
                    "Try arm is `%s(..).ok()` without `?`" % (t_callee or "?").split("::")[-1] if (t_ok and not t_has_try)
                    else "Try arm must be `<section request>.ok()` with no `?` (a failing section must leave the rest intact)", n[1].get("at"))
            # Enforce arm: Some(<call>?)
            en = H.strip(arms["Enforce"])
            e_ok = en[0] == "call" and en[1].get("ctor") == "core::option::Option::Some" and len(en) > 3 and H.is_try(en[3])
            e_call = H.strip(H.try_inner(en[3])) if e_ok else None
            e_callee = H.callee(e_call) if e_call is not None else None
            rep.add(key0 + "|enforce", "C11:D2", bool(e_ok and e_callee),
                    "Enforce arm is `Some(%s(..)?)`" % (e_callee or "?").split("::")[-1] if e_ok else
                    "Enforce arm must be `Some(<section request>?)` (its failure must fail the query)", n[1].get("at"))
            # D1: same section function in both arms, matching field and destination
            suf = None
            for s in sect_fns:
                if t_callee and t_callee.endswith(s):
                    suf = s
            if t_callee and e_callee and (t_callee != e_callee):
                rep.add(key0 + "|same-fn", "C11:D1", False, "Try arm calls %s but Enforce arm calls %s" % (t_callee, e_callee), n[1].get("at"))
            if suf:
                _, want_field, want_dest = sect_fns[suf]
                rep.add(key0 + "|pairing", "C11:D1", field == want_field and dest == want_dest,
                        "section %s is governed by settings.%s and stored in response.%s (expected %s / %s)" % (
                            suf.split("::")[-1], field, dest, want_field, want_dest), n[1].get("at"))
                for (cn, cparents, csuf) in sect_calls:
                    if any(p is arms["Try"] or p is arms["Enforce"] for p in cparents) or cn is t_call or cn is e_call:
                        in_arm.add(id(cn))
            elif t_callee:
                # a toggle guarding something else (e.g. utils tests) is fine; record it
                rep.add(key0 + "|other", "C11:D1", True, "toggle guards %s" % t_callee, n[1].get("at"), nontrivial=False)
        for (cn, cparents, csuf) in sect_calls:
            key = "%s|section-call|%s" % (fname, csuf.split("::")[-1])
            seen_calls[csuf] = seen_calls.get(csuf, 0) + 1
            if id(cn) in in_arm:
                rep.add(key + "|guarded", "C11:D1", True, "call is inside a Try/Enforce arm of its toggle", cn[1].get("at"))
            else:
                rep.add(key + "|unguarded", "C11:D1", False,
                        "%s is called outside the Try/Enforce arms of a GatherToggle match: a Skip-ped section would still be requested" % csuf.split("::")[-1], cn[1].get("at"))
    # ---- D3 app-id check (value analysis on MIR)
    an = K.analysis(c)
    f = c.fn("gamedig::protocols::valve::protocol::get_response")
    if f is None:
        rep.add("gamedig::protocols::valve::protocol::get_response|app-id", "C11:D3", False, "get_response not found")
    else:
        it = an.interp(f["path"])
        b = Body(f)
        bad = [(bi, s) for bi, s, kd, ops in Q.aggregates(f, "gamedig::errors::kind::GDErrorKind") if kd["variant"] == "BadGame"]
        if not bad or it is None:
            rep.add("gamedig::protocols::valve::protocol::get_response|app-id|site", "C11:D3", False, "no BadGame construction found in get_response")
        for bi, s in bad:
            st = it.state_before_term(bi)
            # locals named is_specified_id / the check_app_id field of the settings argument (arg 3)
            spec = [i for i, l in enumerate(b.locals) if l.get("name") == "is_specified_id"]
            ok_spec = bool(spec) and st is not None and it.iv_of("_%d" % spec[0], st) == (0, 0)
            chk = None
            if st is not None:
                for t, iv in st.iv.items():
                    if t.endswith(".check_app_id") and iv == (1, 1):
                        chk = t
            rep.add("gamedig::protocols::valve::protocol::get_response|app-id|guard", "C11:D3", bool(ok_spec and chk),
                    "BadGame is constructed only where is_specified_id == false and %s == true" % chk if (ok_spec and chk) else
                    "BadGame must be dominated by check_app_id == true and is_specified_id == false (state: spec=%s chk=%s)" % (ok_spec, chk), s.get("at"))
        # is_specified_id := true only under appid equality
        spec = [i for i, l in enumerate(b.locals) if l.get("name") == "is_specified_id"]
        n_true = 0
        for (bi, si, rv, proj) in (b.defs().get(spec[0], []) if spec else []):
            if rv[0] == "use" and rv[1][0] == "const" and rv[1][1].get("v") == 1:
                n_true += 1
                st = it.instates.get(bi) if it else None
                eq = False
                if st is not None:
                    for (x, y), k in st.le.items():
                        if k == 0 and x.endswith(".appid") and st.le.get((y, x)) == 0 and (".0" in y or "@1.0" in y or "appid" in y or y.startswith("_")):
                            eq = True
                rep.add("gamedig::protocols::valve::protocol::get_response|app-id|set-true#%d" % n_true, "C11:D3", eq,
                        "is_specified_id = true is reached only with info.appid equal to an expected id" if eq else
                        "is_specified_id is set to true without an equality between info.appid and an expected id on the path", None)
        rep.add("gamedig::protocols::valve::protocol::get_response|app-id|assignments", "C11:D3", n_true == 2,
                "%d assignments of true (first id, dedicated id)" % n_true)
        # must-pass-through: no success return can skip the app-id decision
        oks = [bi for bi, s_, kd, ops in Q.aggregates(f, "core::result::Result") if kd["variant"] == "Ok" and s_["lhs"] == [0, []]]
        cmp_blocks = []
        for bi, blk in enumerate(b.blocks):
            for s_ in blk["stmts"]:
                if s_["k"] == "assign" and s_["rv"][0] == "bin" and s_["rv"][1] == "Eq":
                    r = b.render_rvalue(s_["rv"], 4, names=False)
                    if ".appid" in r:
                        cmp_blocks.append(bi)
        heads = []
        if cmp_blocks:
            b0 = min(cmp_blocks)
            for bi, blk in enumerate(b.blocks):
                t_ = blk["term"]
                if t_ and t_["k"] == "switch" and b.dominates(bi, b0):
                    r = b.render_operand(t_["d"], 5, names=False)
                    if re.match(r"^discr\(\(?[&*]*arg2\b", r):
                        heads.append(bi)
        if not oks or not cmp_blocks or not heads or not bad:
            rep.add("gamedig::protocols::valve::protocol::get_response|app-id|pass-through", "C11:D3", False,
                    "cannot locate the app-id decision (engine test %s, appid comparison %s, success returns %s)" % (heads, cmp_blocks, oks), f["span"])
        else:
            hcopy = list(heads)
            head = min(hcopy, key=lambda x: len([y for y in hcopy if b.dominates(y, x)]))
            not_dom = [x for x in oks if not b.dominates(head, x)]
            # guard block: nearest switch dominating the BadGame construction
            bg = bad[0][0]
            guards = [bi for bi, blk in enumerate(b.blocks) if blk["term"] and blk["term"]["k"] == "switch" and b.dominates(bi, bg) and bi != bg]
            gcopy = list(guards)
            guards = sorted(gcopy, key=lambda x: -len([y for y in gcopy if b.dominates(y, x)]))
            guard_chain = set(guards[:2])  # `!is_specified_id && check_app_id` is two switches
            # from the first appid comparison, can a success return be reached without passing a guard switch?
            seen = set()
            st_ = [min(cmp_blocks)]
            leak = None
            while st_:
                x = st_.pop()
                if x in seen or x in guard_chain:
                    continue
                seen.add(x)
                if x in oks:
                    leak = x
                    break
                st_.extend(b.succ[x])
            ok_pt = not not_dom and leak is None
            rep.add("gamedig::protocols::valve::protocol::get_response|app-id|pass-through", "C11:D3", ok_pt,
                    "every success return is dominated by the engine/app-id decision and, once an expected id is being compared, can only be reached through the BadGame guard" if ok_pt else
                    ("a success return (block %s) is not dominated by the app-id decision: for some settings the check is skipped" % not_dom if not_dom else
                     "a success return (block %s) is reachable from the app-id comparison without passing the BadGame guard" % leak), f["span"])
        # BadGame is constructed nowhere else on the valve path
        others = [(g, v) for (g, bi, v, at) in Q.enum_values(c, "gamedig::errors::kind::GDErrorKind") if v == "BadGame" and g["path"] != f["path"] and "tests" not in g["path"] and not g["path"].startswith("gamedig::errors")]
        rep.add("BadGame|constructors", "C11:D3", not others, "BadGame constructed only in get_response" if not others else "BadGame also constructed in %s" % [Q.disp(g) for g, _ in others])
    # ---- D4 Unreal 2 sequencing
    uq = c.fn("gamedig::protocols::unreal2::protocol::{impl#0}::query")
    if uq is None:
        rep.add("unreal2::query|sequence", "C11:D4", False, "Unreal2Protocol::query not found")
    else:
        order = []
        for n, parents in H.walk(H.body_of(uq)):
            cal = H.callee(n)
            if cal and cal.split("::")[-1] in ("query_server_info", "query_mutators_and_rules", "query_players"):
                guarded = any(p[0] == "match" and "GatherToggle" in p[2][1].get("ty", "") for p in parents)
                order.append((cal.split("::")[-1], guarded))
        names = [x for x, _ in order]
        ok = names[:1] == ["query_server_info"] and order[0][1] is False and names.index("query_mutators_and_rules") < names.index("query_players") if \
            ("query_mutators_and_rules" in names and "query_players" in names and names) else False
        rep.add("gamedig::protocols::unreal2::protocol::Unreal2Protocol::query|sequence", "C11:D4", ok,
                "request order %s; server info is unconditional" % names, uq["span"])
        defaults = [H.declared_callee(n) for n, _ in H.walk(H.body_of(uq)) if n[0] == "mcall" and n[1].get("name") in ("unwrap_or_default", "unwrap_or_else", "unwrap_or")]
        rep.add("gamedig::protocols::unreal2::protocol::Unreal2Protocol::query|defaults", "C11:D4", len(defaults) >= 2,
                "skipped/failed sections fall back to defaults via %s" % [d.split("::")[-1] for d in defaults if d], uq["span"])
    if config == "baseline":
        rep.floor("GatherToggle matches", n_match, 4)
        rep.floor("section request call sites", sum(seen_calls.values()), 8)
    rep.decided = ["D1 section requests only inside the Try/Enforce arm of their own toggle, stored in their own field",
                   "D2 arm shapes: Skip=None without call, Try=.ok() without ?, Enforce=Some(call?)",
                   "D3 BadGame only under check_app_id && !is_specified_id; is_specified_id only under app-id equality",
                   "D4 Unreal 2 request order and defaults"]
    rep.not_decided = ["wire-level absence of a skipped request (follows from D1 with C09)", "error kinds of arbitrary section failures"]
    return rep
