"""C13 - no reply can make a query reserve unbounded memory.
D1 every capacity-taking allocation (with_capacity / vec![x; n] / reserve / resize ...) requests at most 16 MiB by a
   type/mask/min/constant argument, or is proportional to data already held (bounded by a len() of an existing container);
D2 every receive buffer size is a constant (or the 1024 default);
D3 every Socket::send call site is outside loops, inside a receive-driven loop (one request per received datagram), or
   the loop is the retry helper's (bounded by retries+1)."""
from ..core import Report
from . import common as K
from .. import mirq as Q, loops as L
from ..cg import is_socket_receive, is_socket_send
from ..mirlib import Body


def run(tier, config):
    rep = Report("C13")
    c = K.crate("gamedig-lib", config)
    g = K.callgraph(c)
    n = K.ledger_obligations(rep, c, "C13", lambda s: "::tests::" not in s.fn and not s.fn.startswith("gamedig::capture::"), kinds=("alloc",), label="allocation-site")
    # D2 receive sizes
    an = K.analysis(c)
    n_recv = 0
    for f in Q.bodies(c):
        if f["path"].startswith(("gamedig::socket::", "gamedig::capture::")) or "::tests::" in f["path"]:
            continue
        for bi, t, k in Q.calls(f):
            p = t["fn"].get("res") or t["fn"]["raw"]
            if not (is_socket_receive(p) or p == "gamedig::socket::Socket::receive"):
                continue
            n_recv += 1
            it = an.interp(f["path"])
            st = it.state_before_term(bi) if it else None
            ok = False
            detail = "receive size could not be evaluated"
            if st is not None:
                v = it.op_val(t["args"][1], st)
                var = st.variants.get(v) if isinstance(v, str) else None
                if var == 0:
                    ok, detail = True, "size None (default 1024)"
                elif var == 1:
                    iv = it.iv_of(v + "@1.0", st)
                    ok = iv[1] <= 65536
                    detail = "size Some(%s)" % (iv[0] if iv[0] == iv[1] else "[%s,%s]" % iv)
                else:
                    detail = "size is not a literal Some(const)/None: %s" % Body(f).render_operand(t["args"][1], 4)
            rep.add("%s|receive-size" % Q.disp(f) + ("#%d" % bi if False else ""), "C13:D2", ok, detail, t.get("at"))
    # D3 sends
    n_send = 0
    for f in Q.bodies(c):
        if f["path"].startswith(("gamedig::socket::", "gamedig::capture::")) or "::tests::" in f["path"]:
            continue
        ls = None
        for bi, t, k in Q.calls(f):
            p = t["fn"].get("res") or t["fn"]["raw"]
            if not (is_socket_send(p) or p == "gamedig::socket::Socket::send"):
                continue
            n_send += 1
            if ls is None:
                ls = L.classify(c, g, f)
            inl = [li for li in ls if bi in li.body]
            bad = [li for li in inl if li.cls != "a:receive"]
            rep.add("%s|send-in-loop" % Q.disp(f), "C13:D3", not bad,
                    "send is outside any loop" if not inl else ("send inside a receive-driven loop (one request per received datagram)" if not bad
                    else "send inside a loop of class %s: the number of requests is not bounded by received datagrams" % bad[0].cls), t.get("at"))
    if config == "baseline":
        rep.floor("allocation sites", n, 15)
        rep.floor("receive call sites", n_recv, 12)
        rep.floor("send call sites", n_send, 14)
    rep.decided = ["D1 every capacity-taking allocation is bounded by a constant/type/mask/min (<= 16 MiB) or by the length of data already held",
                   "D2 receive buffers have constant sizes", "D3 requests sent are bounded by retries and received datagrams"]
    rep.not_decided = ["the 64 MiB live total (needs a cost model over whole paths)", "allocations inside dependencies (bzip2, serde_json, ureq)",
                       "growth of collections that is proportional to received bytes is accepted, not measured"]
    return rep
