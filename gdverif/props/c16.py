"""C16 - master-server filters and paging: every builder / parser of the service agrees with its reviewed table:
insert / insert_nand / insert_nor update their own group, the 18 filter keys, the \\nand\\N / \\nor\\N group prefix, the
request layout 0x31 region ip:port\\0 filter\\0, the reply header FF FF FF FF 66 0A with 6-byte big-endian entries,
and the paging loop (seed = last address of the previous page, exits, terminator popped)."""
from ._tracebase import run_tables

DECIDED = ["D1 insert* -> group field; Filter::to_bytes key table (18 rows); tag join", "D2 group prefix, filter string order, request layout",
           "D3 reply schedule", "D4 paging loop seeds, exits, terminator handling"]
NOT = ["denotation of all insertion sequences (HashMap iteration order is not fixed)", "what the master server answers"]


def run(tier, config):
    return run_tables("C16", config, DECIDED, NOT, 11, 40)
