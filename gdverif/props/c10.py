"""C10 - retries: at most r+1 attempts, only after timeouts.
D1 every Socket::send / Socket::receive call site is covered by a closure handed to retry_on_timeout on every call
   chain from the public API, except the reviewed exceptions (no-retry protocols, greedy follow-up receives);
D2 the count given to retry_on_timeout derives from TimeoutSettings::get_retries* of the caller's settings;
D3 shape of retry_on_timeout: one counter loop started at count+1, one fetch per iteration, the error kinds it
   compares are exactly {PacketReceive, PacketSend};
D4 only the transport layer constructs PacketReceive / PacketSend (a malformed reply can never be re-attempted)."""
from ..core import Report
from . import common as K
from .. import mirq as Q, loops as L
from ..cg import is_socket_receive, is_socket_send
from ..mirlib import Body, callee_key

# send/receive sites allowed outside a retried unit, with the reason
# exceptions that must nevertheless also be reachable through a retried closure
ALSO_RETRIED = ("gamedig::games::mindustry::protocol::query", "gamedig::games::mindustry::protocol::send_ping")
UNCOVERED_OK = {
    "gamedig::games::mindustry::protocol::query": "documented no-retry entry point; query_with_retries wraps it in retry_on_timeout",
    "gamedig::games::mindustry::protocol::send_ping": "crate-visible helper of the no-retry entry point; also called inside the retried unit",
    "gamedig::games::savage2::protocol::query_with_timeout": "Savage 2 has no retry in its API (single attempt by design)",
    "gamedig::services::valve_master_server::service::<services::valve_master_server::service::ValveMasterServer>::query_specific":
        "master-server service has no retry setting in its API",
    "gamedig::protocols::unreal2::protocol::<protocols::unreal2::protocol::Unreal2Protocol>::query_mutators_and_rules":
        "greedy follow-up receive after the retried first packet",
    "gamedig::protocols::unreal2::protocol::<protocols::unreal2::protocol::Unreal2Protocol>::query_players":
        "greedy follow-up receive after the retried first packet",
}
TRANSPORT_MODULES = ("gamedig::socket::", "gamedig::http::", "gamedig::capture::socket::", "gamedig::utils::retry_on_timeout")


def retry_calls(c):
    return Q.find_calls(c, lambda k, p: p.endswith("utils::retry_on_timeout"))


def run(tier, config):
    rep = Report("C10")
    c = K.crate("gamedig-lib", config)
    g = K.callgraph(c)
    rcalls = retry_calls(c)
    retried = set()
    for f, bi, t, k in rcalls:
        cp = Q.closure_arg_path(f, t["args"][1])
        if cp is None:
            rep.add("%s|retry-closure" % Q.disp(f), "C10:D1", False, "cannot resolve the closure handed to retry_on_timeout", t.get("at"))
        else:
            retried.add(cp)
    # D5 re-entrancy: a retried closure may hold the protocol/socket object mutably, but nothing else - any other
    # mutable capture is state carried from one attempt to the next (the re-attempt would not be the same request)
    def owns_socket(ty, depth=0):
        t = ty.replace("&mut ", "").replace("&", "").strip()
        if "Socket" in t or "socket::" in t:
            return True
        if depth > 2:
            return False
        base = t.split("<")[0]
        for path, adt in c.adts.items():
            if path.split("gamedig::")[-1] == base or path.endswith("::" + base.split("::")[-1]) and base.split("::")[-1] == path.split("::")[-1]:
                for v in adt["variants"]:
                    for fld in v["fields"]:
                        if "Socket" in fld["ty"] or "socket::" in fld["ty"] or "HttpClient" in fld["ty"] or "Agent" in fld["ty"]:
                            return True
        return False
    for f, bi, t, k in rcalls:
        if "::tests::" in f["path"]:
            continue
        b = Body(f)
        # locate the closure aggregate
        op = t["args"][1]
        l = op[1][0] if op[0] in ("copy", "move") else None
        sd = b.single_def(l) if l is not None else None
        hops = 0
        while sd and sd[2][0] == "use" and hops < 4:
            op = sd[2][1]
            l = op[1][0] if op[0] in ("copy", "move") else None
            sd = b.single_def(l) if l is not None else None
            hops += 1
        if not sd or sd[2][0] != "agg" or sd[2][1].get("k") != "closure":
            continue
        caps = sd[2][2]
        bad = []
        for cp_ in caps:
            if cp_[0] in ("copy", "move") and not cp_[1][1]:
                ty = b.locals[cp_[1][0]]["ty"]
                if ty.startswith("&mut ") and not owns_socket(ty):
                    bad.append("%s: %s" % (b.render_operand(cp_, 3, names=True), ty))
        rep.add("%s|retry-closure-reentrant" % Q.disp(f), "C10:D5", not bad,
                "the retried closure captures only the protocol/socket object mutably" if not bad else
                "the retried closure captures %s by mutable reference: state is carried from one attempt to the next, so a re-attempt is not the same request" % bad, t.get("at"))
    # coverage: F is covered if it is a retried closure or every caller (>=1) is covered
    callers = {}
    for p, outs in g.edges.items():
        for (callee, bi, t) in outs:
            callers.setdefault(callee, set()).add(p)
    memo = {}

    def covered(p, stack=()):
        if p in retried:
            return True
        if p in memo:
            return memo[p]
        if p in stack:
            return True
        cs = [x for x in callers.get(p, ()) if not x.startswith("gamedig::utils::tests")]
        f = c.fn(p)
        if not cs or (f and f.get("exported")):
            memo[p] = False
            return False
        r = all(covered(x, stack + (p,)) for x in cs)
        memo[p] = r
        return r
    n_sites = 0
    for f in Q.bodies(c):
        if f["path"].startswith("gamedig::socket::") or "::tests::" in f["path"] or f["path"].startswith("gamedig::capture::"):
            continue
        for bi, t, k in Q.calls(f):
            p = t["fn"].get("res") or t["fn"]["raw"]
            if not (is_socket_receive(p) or is_socket_send(p) or p in ("gamedig::socket::Socket::receive", "gamedig::socket::Socket::send")):
                continue
            n_sites += 1
            name = Q.disp(f)
            key = "%s|retry-coverage|%s" % (name, k.split("@")[0])
            if covered(f["path"]):
                rep.add(key, "C10:D1", True, "%s is only reachable through a closure passed to retry_on_timeout" % name, t.get("at"))
            elif name in UNCOVERED_OK or f["path"] in UNCOVERED_OK:
                why = UNCOVERED_OK.get(name) or UNCOVERED_OK.get(f["path"])
                if f["path"] in ALSO_RETRIED:
                    also = g.reachable_from(retried)
                    if f["path"] not in also:
                        rep.add(key, "C10:D1-exception", False, "%s is no longer reachable from any retried closure (%s)" % (name, why), t.get("at"))
                        continue
                rep.add(key, "C10:D1-exception", True, why, t.get("at"), nontrivial=False)
            else:
                rep.add(key, "C10:D1", False,
                        "%s in %s can be reached without passing through retry_on_timeout (request would not be re-attempted after a timeout)" % (k, name), t.get("at"))
    # D2 count provenance
    for f, bi, t, k in rcalls:
        if "::tests::" in f["path"]:
            continue
        r = Q.render(f, t["args"][0], 8)
        name = Q.disp(f)
        ok = "get_retries" in r
        how = r
        if not ok and ".retry_count" in r:
            # field of self: every constructor of the struct must initialise it from get_retries*
            st_ty = Body(f).locals[1]["ty"] if Body(f).argc >= 1 else ""
            inits = []
            for g2 in Q.bodies(c):
                for bi2, s, kd, ops in Q.aggregates(g2):
                    if "retry_count" in kd["fields"] and kd["path"].split("::")[-1] in r + st_ty + name:
                        inits.append((g2, Q.render(g2, ops[kd["fields"].index("retry_count")], 8)))
            ok = bool(inits) and all("get_retries" in x for _, x in inits)
            how = "self.retry_count, initialised as %s" % [x[:90] for _, x in inits]
        rep.add("%s|retry-count" % name, "C10:D2", ok, "retry count operand: %s" % how[:300], t.get("at"))
    # D3 helper shape
    rf = [f for f in c.fns if f["path"] == "gamedig::utils::retry_on_timeout"]
    if not rf:
        rep.add("gamedig::utils::retry_on_timeout|shape", "C10:D3", False, "retry_on_timeout not found")
    else:
        f = rf[0]
        b = Body(f)
        ls = L.classify(c, g, f)
        ok = len(ls) == 1 and ls[0].cls == "d:counter"
        rep.add("gamedig::utils::retry_on_timeout|loop", "C10:D3", ok, "loops: %s" % [(x.cls, x.detail) for x in ls], f["span"])
        # counter start = count + 1 outside the loop, step -1 inside
        ups = []
        body_blocks = ls[0].body if ls else set()
        for (bi, si, rv, proj) in b.defs().get(1, []):
            ups.append((bi in body_blocks, b.render_rvalue(rv, 4, names=False)))
        outside = [r for inl, r in ups if not inl]
        inside = [r for inl, r in ups if inl]
        ok_out = outside in (["(arg1 + 1usize).0"], ["num::saturating_add(arg1, 1usize)"], ["usize::saturating_add(arg1, 1usize)"], ["(var:usize + 1usize).0"], ["usize::saturating_add(var:usize, 1usize)"], ["num::saturating_add(var:usize, 1usize)"])
        ok_in = inside in (["(arg1 - 1usize).0"], ["(var:usize - 1usize).0"])
        rep.add("gamedig::utils::retry_on_timeout|attempts", "C10:D3", ok_out and ok_in,
                "counter updates outside loop %s, inside loop %s (expected +1 once, -1 per iteration => at most r+1 attempts)" % (outside, inside), f["span"])
        fetches = [bi for bi, t, k in Q.calls(f) if k.startswith("FnMut::call_mut")]
        okf = len(fetches) == 1 and fetches[0] in body_blocks and all(b.dominates(fetches[0], x) for x in body_blocks if ls and ls[0].head in b.succ[x])
        rep.add("gamedig::utils::retry_on_timeout|one-fetch", "C10:D3", okf, "fetch call sites: %s" % fetches, f["span"])
        kinds = sorted({v for (ff, bi, v, at) in Q.enum_values(c, "gamedig::errors::kind::GDErrorKind") if ff["path"] == f["path"]})
        rep.add("gamedig::utils::retry_on_timeout|kinds", "C10:D3", kinds == ["PacketReceive", "PacketSend"],
                "error kinds named in the helper: %s (expected exactly PacketReceive, PacketSend)" % kinds, f["span"])
        # loop exits: guard exit + return on Ok + return on other error
        exits = {(x, s) for x in body_blocks for s in b.succ[x] if s not in body_blocks}
        rep.add("gamedig::utils::retry_on_timeout|exits", "C10:D3", len(exits) >= 3, "%d loop exits (guard, first Ok, non-timeout error)" % len(exits), f["span"])
    # D4 who constructs the two timeout-class kinds
    n_cons = 0
    for f, bi, v, at in Q.enum_values(c, "gamedig::errors::kind::GDErrorKind"):
        if v not in ("PacketReceive", "PacketSend") or "::tests::" in f["path"] or f["path"].startswith("gamedig::errors::"):
            continue
        n_cons += 1
        ok = f["path"].startswith(TRANSPORT_MODULES)
        rep.add("%s|constructs|%s" % (Q.disp(f), v), "C10:D4", ok,
                "%s constructed in %s" % (v, Q.disp(f)) + ("" if ok else " - outside the transport layer: a parser error would be retried as a timeout"), at)
    if config == "baseline":
        rep.floor("retry_on_timeout call sites", len([x for x in rcalls if "::tests::" not in x[0]["path"]]), 12)
        rep.floor("send/receive call sites outside socket.rs", n_sites, 25)
        rep.floor("PacketReceive/PacketSend construction sites", n_cons, 5)
    rep.decided = ["D1 every send/receive site is inside a retried unit on all call chains (4 reviewed exceptions)",
                   "D2 retry counts come from TimeoutSettings::get_retries*", "D5 the retried unit carries no mutable state of its own between attempts", "D3 helper makes at most r+1 attempts, one fetch each, "
                   "retries exactly the PacketReceive/PacketSend kinds", "D4 only socket/http/capture code can produce those kinds"]
    rep.not_decided = ["'same result as with no faults' (state carried across attempts) - needs execution",
                       "which concrete attempt determines the result"]
    return rep
