"""C10 - retries: at most r+1 attempts, only after timeouts.
D1 every Socket::send / Socket::receive call site is covered by a closure handed to retry_on_timeout on every call
   chain from the public API, except the reviewed exceptions (no-retry protocols, greedy follow-up receives);
D2 the count given to retry_on_timeout derives from TimeoutSettings::get_retries* of the caller's settings;
D3 shape of retry_on_timeout: one counter loop started at count+1, one fetch per iteration, the error kinds it
   compares are exactly {PacketReceive, PacketSend};
D4 only the transport layer constructs PacketReceive / PacketSend (a malformed reply can never be re-attempted)."""
from ..core import Report
from . import common as K
from .. import mirq as Q, loops as L
from ..cg import is_socket_receive, is_socket_send
from ..mirlib import Body, callee_key

# send/receive sites allowed outside a retried unit, with the reason
# exceptions that must nevertheless also be reachable through a retried closure
ALSO_RETRIED = ("gamedig::games::mindustry::protocol::query", "gamedig::games::mindustry::protocol::send_ping")
UNCOVERED_OK = {
    "gamedig::games::mindustry::protocol::query": "documented no-retry entry point; query_with_retries wraps it in retry_on_timeout",
    "gamedig::games::mindustry::protocol::send_ping": "crate-visible helper of the no-retry entry point; also called inside the retried unit",
    "gamedig::games::savage2::protocol::query_with_timeout": "Savage 2 has no retry in its API (single attempt by design)",
    "gamedig::services::valve_master_server::service::<services::valve_master_server::service::ValveMasterServer>::query_specific":
        "master-server service has no retry setting in its API",
    "gamedig::protocols::unreal2::protocol::<protocols::unreal2::protocol::Unreal2Protocol>::query_mutators_and_rules":
        "greedy follow-up receive after the retried first packet",
    "gamedig::protocols::unreal2::protocol::<protocols::unreal2::protocol::Unreal2Protocol>::query_players":
        "greedy follow-up receive after the retried first packet",
}
TRANSPORT_MODULES = ("gamedig::socket::", "gamedig::http::", "gamedig::capture::socket::", "gamedig::utils::retry_on_timeout")


def retry_calls(c):
    return Q.find_calls(c, lambda k, p: p.endswith("utils::retry_on_timeout"))


def retry_shape(c, f):
    """D3 on the canonical term of retry_on_timeout (sym.py): exactly one loop; the closure is applied exactly once per
    iteration, unconditionally; the number of iterations is bounded by count+1 - derived from the loop's counter
    (down from count+1 to 0, up from 0 to count+1, or a range over it), whatever the loop is written like"""
    from .. import sym as SY
    sy = SY.Sym(c, lambda p: False, None)
    eff = sy.run_unit(f)
    pr = SY.Printer(sy)
    out = []
    loops = [e for e in eff if e[0] == "loop"]
    nested = []

    def walk(es, depth, acc):
        for e in es:
            if e[0] == "op" and sy.ops[e[1]].name == "apply":
                acc.append((depth, e))
            elif e[0] == "if":
                walk(e[2], depth + 1, acc); walk(e[3], depth + 1, acc)
            elif e[0] == "guard":
                walk(e[2], depth + 1, acc)
            elif e[0] == "match":
                for arm in e[2]:
                    walk(arm[2], depth + 1, acc)
            elif e[0] == "loop":
                nested.append(e)
                walk(e[5], depth + 1, acc)
    outside = []
    walk([e for e in eff if e[0] != "loop"], 0, outside)
    out.append(("loop", len(loops) == 1, "%d top-level loop(s) in retry_on_timeout (expected one)" % len(loops)))
    if len(loops) != 1:
        return out
    lp = loops[0]
    _, lid, kind, header, inits, body, at = lp
    n_nested = len(nested)
    inside = []
    walk(body, 0, inside)
    ok_fetch = len(inside) == 1 and inside[0][0] == 0 and not outside and len(nested) == n_nested
    out.append(("one-fetch", ok_fetch, "closure applications: %d in the loop body (%s), %d outside the loop" % (
        len(inside), "unconditional" if inside and inside[0][0] == 0 else "conditional", len(outside))))
    if inside:
        args = sy.ops[inside[0][1][1]].args
        out.append(("fetch-is-the-argument", len(args) == 1 and args[0] == ("param", 1), "applied value: %s" % pr.show(args[0])))
    # trip count
    R1 = ("r+1", ["usize::saturating_add(a0, 1)", "(1 Add a0)", "usize::wrapping_add(a0, 1)"])
    bound = None
    why = ""
    if kind == "for" and header is not None:
        h = pr.show(header)
        if header[0] == "range" and header[2] == ("lit", "0") and header[3] is not None and "Inclusive" not in header[1]:
            bound, why = pr.show(header[3]), "for over 0..N"
        elif header[0] == "range" and header[2] == ("lit", "0") and header[3] == ("param", 0) and "Inclusive" in header[1]:
            bound, why = "(1 Add a0)", "for over 0..=count"
        elif header[0] == "range" and header[2] == ("lit", "1") and header[3] is not None and "Inclusive" in header[1]:
            bound, why = pr.show(header[3]), "for over 1..=N"
        else:
            why = "for over %s" % h
    else:
        guards = [e for e in body if e[0] == "guard"]
        first = body[0] if body else None
        nexts = []

        def collect(es):
            for e in es:
                if e[0] == "next":
                    nexts.append(e)
                elif e[0] == "if":
                    collect(e[2]); collect(e[3])
                elif e[0] == "guard":
                    collect(e[2])
                elif e[0] == "match":
                    for arm in e[2]:
                        collect(arm[2])
        collect(body)
        if first is not None and first[0] == "guard" and len(first[2]) == 1 and first[2][0][0] == "break":
            cond = first[1]
            init = dict(inits)
            for i in init:
                phi = ("phi", lid, i)
                ups = [dict(nx[2]).get(i, phi) for nx in nexts]
                if not ups:
                    continue
                if cond == ("bin", "Lt", ("lit", "0"), phi) and all(u == ("bin", "Sub", phi, ("lit", "1")) for u in ups):
                    bound, why = pr.show(init[i]), "counts down from N while > 0"
                elif cond[0] == "bin" and cond[1] == "Lt" and cond[2] == phi and init[i] == ("lit", "0") and \
                        all(u in (("bin", "Add", ("lit", "1"), phi), ("bin", "Add", phi, ("lit", "1"))) for u in ups) and "L%d" not in pr.show(cond[3]):
                    bound, why = pr.show(cond[3]), "counts up from 0 while < N"
                elif cond == ("bin", "Ne", ("lit", "0"), phi) and all(u == ("bin", "Sub", phi, ("lit", "1")) for u in ups):
                    bound, why = pr.show(init[i]), "counts down from N while != 0"
        if bound is None:
            why = "loop guard %s with counters %s" % (pr.show(first[1]) if first is not None and first[0] == "guard" else "<none>",
                                                    [(i, pr.show(v)) for i, v in inits])
    ok = bound in R1[1]
    out.append(("attempts", ok, "iterations bounded by %s (%s); expected count+1 => at most r+1 attempts" % (bound, why)))
    return out


def run(tier, config):
    rep = Report("C10")
    c = K.crate("gamedig-lib", config)
    g = K.callgraph(c)
    rcalls = retry_calls(c)
    retried = set()
    for f, bi, t, k in rcalls:
        cp = Q.closure_arg_path(f, t["args"][1])
        if cp is None:
            rep.add("%s|retry-closure" % Q.disp(f), "C10:D1", False, "cannot resolve the closure handed to retry_on_timeout", t.get("at"))
        else:
            retried.add(cp)
    # D5 re-entrancy: a retried closure may hold the protocol/socket object mutably, but nothing else - any other
    # mutable capture is state carried from one attempt to the next (the re-attempt would not be the same request)
    def owns_socket(ty, depth=0):
        t = ty.replace("&mut ", "").replace("&", "").strip()
        if "Socket" in t or "socket::" in t:
            return True
        if depth > 2:
            return False
        base = t.split("<")[0]
        for path, adt in c.adts.items():
            if path.split("gamedig::")[-1] == base or path.endswith("::" + base.split("::")[-1]) and base.split("::")[-1] == path.split("::")[-1]:
                for v in adt["variants"]:
                    for fld in v["fields"]:
                        if "Socket" in fld["ty"] or "socket::" in fld["ty"] or "HttpClient" in fld["ty"] or "Agent" in fld["ty"]:
                            return True
        return False
    for f, bi, t, k in rcalls:
        if "::tests::" in f["path"]:
            continue
        b = Body(f)
        # locate the closure aggregate
        op = t["args"][1]
        l = op[1][0] if op[0] in ("copy", "move") else None
        sd = b.single_def(l) if l is not None else None
        hops = 0
        while sd and sd[2][0] == "use" and hops < 4:
            op = sd[2][1]
            l = op[1][0] if op[0] in ("copy", "move") else None
            sd = b.single_def(l) if l is not None else None
            hops += 1
        if not sd or sd[2][0] != "agg" or sd[2][1].get("k") != "closure":
            continue
        caps = sd[2][2]
        bad = []
        for cp_ in caps:
            if cp_[0] in ("copy", "move") and not cp_[1][1]:
                ty = b.locals[cp_[1][0]]["ty"]
                if ty.startswith("&mut ") and not owns_socket(ty):
                    bad.append("%s: %s" % (b.render_operand(cp_, 3, names=True), ty))
        rep.add("%s|retry-closure-reentrant" % Q.disp(f), "C10:D5", not bad,
                "the retried closure captures only the protocol/socket object mutably" if not bad else
                "the retried closure captures %s by mutable reference: state is carried from one attempt to the next, so a re-attempt is not the same request" % bad, t.get("at"))
    # coverage: F is covered if it is a retried closure or every caller (>=1) is covered
    callers = {}
    for p, outs in g.edges.items():
        for (callee, bi, t) in outs:
            callers.setdefault(callee, set()).add(p)
    memo = {}

    def covered(p, stack=()):
        if p in retried:
            return True
        if p in memo:
            return memo[p]
        if p in stack:
            return True
        cs = [x for x in callers.get(p, ()) if not x.startswith("gamedig::utils::tests")]
        f = c.fn(p)
        if not cs or (f and f.get("exported")):
            memo[p] = False
            return False
        r = all(covered(x, stack + (p,)) for x in cs)
        memo[p] = r
        return r
    n_sites = 0
    for f in Q.bodies(c):
        if f["path"].startswith("gamedig::socket::") or "::tests::" in f["path"] or f["path"].startswith("gamedig::capture::"):
            continue
        for bi, t, k in Q.calls(f):
            p = t["fn"].get("res") or t["fn"]["raw"]
            if not (is_socket_receive(p) or is_socket_send(p) or p in ("gamedig::socket::Socket::receive", "gamedig::socket::Socket::send")):
                continue
            n_sites += 1
            name = Q.disp(f)
            key = "%s|retry-coverage|%s" % (name, k.split("@")[0])
            if covered(f["path"]):
                rep.add(key, "C10:D1", True, "%s is only reachable through a closure passed to retry_on_timeout" % name, t.get("at"))
            elif name in UNCOVERED_OK or f["path"] in UNCOVERED_OK:
                why = UNCOVERED_OK.get(name) or UNCOVERED_OK.get(f["path"])
                if f["path"] in ALSO_RETRIED:
                    also = g.reachable_from(retried)
                    if f["path"] not in also:
                        rep.add(key, "C10:D1-exception", False, "%s is no longer reachable from any retried closure (%s)" % (name, why), t.get("at"))
                        continue
                rep.add(key, "C10:D1-exception", True, why, t.get("at"), nontrivial=False)
            else:
                rep.add(key, "C10:D1", False,
                        "%s in %s can be reached without passing through retry_on_timeout (request would not be re-attempted after a timeout)" % (k, name), t.get("at"))
    # D2 count provenance
    for f, bi, t, k in rcalls:
        if "::tests::" in f["path"]:
            continue
        r = Q.render(f, t["args"][0], 8)
        name = Q.disp(f)
        ok = "get_retries" in r
        how = r
        if not ok and ".retry_count" in r:
            # field of self: every constructor of the struct must initialise it from get_retries*
            st_ty = Body(f).locals[1]["ty"] if Body(f).argc >= 1 else ""
            inits = []
            for g2 in Q.bodies(c):
                for bi2, s, kd, ops in Q.aggregates(g2):
                    if "retry_count" in kd["fields"] and kd["path"].split("::")[-1] in r + st_ty + name:
                        inits.append((g2, Q.render(g2, ops[kd["fields"].index("retry_count")], 8)))
            ok = bool(inits) and all("get_retries" in x for _, x in inits)
            how = "self.retry_count, initialised as %s" % [x[:90] for _, x in inits]
        rep.add("%s|retry-count" % name, "C10:D2", ok, "retry count operand: %s" % how[:300], t.get("at"))
    # D3 helper shape
    rf = [f for f in c.fns if f["path"] == "gamedig::utils::retry_on_timeout"]
    if not rf:
        rep.add("gamedig::utils::retry_on_timeout|shape", "C10:D3", False, "retry_on_timeout not found")
    else:
        f = rf[0]
        b = Body(f)
        ls = L.classify(c, g, f)
        body_blocks = ls[0].body if ls else set()
        for key, ok, detail in retry_shape(c, f):
            rep.add("gamedig::utils::retry_on_timeout|" + key, "C10:D3", ok, detail, f["span"])
        kinds = sorted({v for (ff, bi, v, at) in Q.enum_values(c, "gamedig::errors::kind::GDErrorKind") if ff["path"] == f["path"]})
        rep.add("gamedig::utils::retry_on_timeout|kinds", "C10:D3", kinds == ["PacketReceive", "PacketSend"],
                "error kinds named in the helper: %s (expected exactly PacketReceive, PacketSend)" % kinds, f["span"])
        # loop exits: guard exit + return on Ok + return on other error
        exits = {(x, s) for x in body_blocks for s in b.succ[x] if s not in body_blocks}
        rep.add("gamedig::utils::retry_on_timeout|exits", "C10:D3", len(exits) >= 3, "%d loop exits (guard, first Ok, non-timeout error)" % len(exits), f["span"])
    # D6 no silent discard: a loop that receives must record something from every datagram it accepts before it goes round
    # again (or answer it with a send). An iteration that receives, inspects the datagram and simply continues turns a
    # malformed reply into "nothing received": the helper then sees a timeout and re-attempts the request.
    from .. import tracespec as TS, sym as SY, units as U
    units, g2 = TS.all_units(c)
    seen_loops = {}
    for prop in ("C02", "C03", "C04", "C05", "C06", "C07", "C16"):
        for p_ in U.select(c, prop):
            if not g2.reaches(p_, SY.IO_PRED):
                continue
            sy = SY.Sym(c, lambda q: q in units, g2)
            sy.run_unit(c.fn(p_))
            for lp in sy.loop_log:
                at = lp[6]
                if at in seen_loops:
                    continue
                names = []
                nexts = []

                def walk(es, top=True):
                    for e in es:
                        if e[0] == "op":
                            names.append(sy.ops[e[1]].name)
                        elif e[0] == "next":
                            nexts.append(e)
                        elif e[0] == "if":
                            walk(e[2]); walk(e[3])
                        elif e[0] == "guard":
                            walk(e[2])
                        elif e[0] == "match":
                            for arm in e[2]:
                                walk(arm[2])
                        elif e[0] == "scope":
                            walk(e[2])
                walk(lp[5])
                if not any(n == "socket.receive" or (n.startswith("call ") and "receive" in n.split("::")[-1]) for n in names):
                    continue
                has_send = any(n == "socket.send" for n in names)
                silent = [e for e in nexts if not e[2]]
                seen_loops[at] = (p_, has_send, len(nexts), len(silent))
    for at, (p_, has_send, n_next, n_silent) in sorted(seen_loops.items(), key=lambda x: str(x[0])):
        ok = has_send or n_silent == 0
        rep.add("receive-loop@%s|no-silent-discard" % (c.fn(p_)["name"] + ":" + str(at).rsplit("/", 1)[-1].split(":")[0]), "C10:D6", ok,
                "receive loop (seen from %s): %d way(s) round the loop, %d of them without recording anything from the datagram%s" % (
                    p_.split("gamedig::")[-1], n_next, n_silent, "; the iteration also sends (exchange loop)" if has_send else ""), at)
    if config == "baseline":
        rep.floor("receive loops", len(seen_loops), 4)
    # D4 who constructs the two timeout-class kinds
    n_cons = 0
    for f, bi, v, at in Q.enum_values(c, "gamedig::errors::kind::GDErrorKind"):
        if v not in ("PacketReceive", "PacketSend") or "::tests::" in f["path"] or f["path"].startswith("gamedig::errors::"):
            continue
        n_cons += 1
        ok = f["path"].startswith(TRANSPORT_MODULES)
        rep.add("%s|constructs|%s" % (Q.disp(f), v), "C10:D4", ok,
                "%s constructed in %s" % (v, Q.disp(f)) + ("" if ok else " - outside the transport layer: a parser error would be retried as a timeout"), at)
    if config == "baseline":
        rep.floor("retry_on_timeout call sites", len([x for x in rcalls if "::tests::" not in x[0]["path"]]), 12)
        rep.floor("send/receive call sites outside socket.rs", n_sites, 25)
        rep.floor("PacketReceive/PacketSend construction sites", n_cons, 5)
    rep.decided = ["D1 every send/receive site is inside a retried unit on all call chains (4 reviewed exceptions)",
                   "D2 retry counts come from TimeoutSettings::get_retries*", "D5 the retried unit carries no mutable state of its own between attempts", "D3 helper makes at most r+1 attempts, one fetch each, "
                   "retries exactly the PacketReceive/PacketSend kinds", "D4 only socket/http/capture code can produce those kinds"]
    rep.not_decided = ["'same result as with no faults' (state carried across attempts) - needs execution",
                       "which concrete attempt determines the result"]
    return rep
