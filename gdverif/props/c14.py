"""C14 - definition-driven, per-game and protocol-level queries agree (E7).
For every row of the GAMES table: the generic dispatcher's call for the row's protocol, and the game's dedicated
wrapper, must agree with the row on (a) the destination port when none is given, (b) the protocol function,
(c) the engine (observationally), (d) the effective gather settings."""
import re
from ..core import Report
from . import common as K
from .. import hirlib as H, ports as P, mirq as Q, trace as T

ALIASES = {  # GAMES id -> wrapper module name where they differ
    "unrealtournament2003": "ut2003", "unrealtournament2004": "ut2004", "dhe4445": "darkesthour",
    "minecraftjava": "minecraft::query_java", "minecraftbedrock": "minecraft::query_bedrock", "minecraftpocket": "minecraft::query_bedrock",
    "minecraft": "minecraft::query",
    "minecraftlegacy16": "minecraft::query_legacy_specific", "minecraftlegacy14": "minecraft::query_legacy_specific",
    "minecraftlegacyb18": "minecraft::query_legacy_specific",
}
GATHER_DEFAULT = "GatheringSettings::default()"


def games_table(c):
    g = c.fn("gamedig::games::definitions::GAMES")
    rows = []
    if g is None or not g.get("hir"):
        return rows
    for n, par in H.walk(g["hir"]["body"]):
        if n[0] == "tup" and len(n) == 4 and n[2][0] == "lit" and H.strip(n[3])[0] == "struct":
            st = H.strip(n[3])
            d = {"at": st[1].get("at")}
            for fld in st[2:]:
                if fld[0] == "fld":
                    d[fld[1]["name"]] = H.show(fld[2]).replace("core::option::Option::", "")
            rows.append((n[2][1]["v"], d))
    return rows


def dispatch_rows(c):
    f = c.fn("gamedig::games::query::query_with_timeout_and_extra_settings")
    if f is None:
        return [], None
    T.set_crate(c)
    rows = [r for r in T.extract(f, calls=True, rename=False) if r["op"].startswith("call ") and "query" in r["op"].split("(")[0].split("::")[-1]]
    return rows, f


def tokens_for(proto):
    """tokens that must appear in the dispatcher arm context for a GAMES protocol expression"""
    p = proto
    if p.startswith("Valve("):
        return ["Protocol::Valve"]
    if p.startswith("Gamespy("):
        return ["Protocol::Gamespy", "GameSpyVersion::" + p.split("GameSpyVersion::")[1].rstrip(")")]
    if p.startswith("Quake("):
        return ["Protocol::Quake", "QuakeVersion::" + p.split("QuakeVersion::")[1].rstrip(")")]
    if "Protocol::Unreal2" in p:
        return ["Protocol::Unreal2"]
    if p.startswith("PROPRIETARY("):
        inner = p[len("PROPRIETARY("):-1]
        if inner.startswith("Minecraft("):
            v = inner[len("Minecraft("):-1]
            if v == "None":
                return ["ProprietaryProtocol::Minecraft", "Option::None"]
            if "Java" in v:
                return ["ProprietaryProtocol::Minecraft", "Server::Java"]
            if "Bedrock" in v:
                return ["ProprietaryProtocol::Minecraft", "Server::Bedrock"]
            return ["ProprietaryProtocol::Minecraft", "Server::Legacy"]
        return ["ProprietaryProtocol::" + inner.split("ProprietaryProtocol::")[-1]]
    if p.startswith("Epic("):
        return ["Protocol::Epic"]
    return [p]


def norm_gather(s):
    s = s.replace("protocols::types::", "").replace("protocols::valve::types::", "")
    s = re.sub(r"\.into_extra\(\)$", "", s)
    m = re.match(r"^Some\((.*)\)$", s)
    if m:
        s = m.group(1)
    if s in ("default()", "GatheringSettings::default()", "None"):
        # protocols::valve::query turns None into GatheringSettings::default()
        return GATHER_DEFAULT
    # field order of a struct literal is not significant
    m = re.match(r"^(\w+)\{(.*)\}$", s)
    if m and "{" not in m.group(2):
        s = "%s{%s}" % (m.group(1), ", ".join(sorted(x.strip() for x in m.group(2).split(","))))
    return s


def run(tier, config):
    rep = Report("C14")
    c = K.crate("gamedig-lib", config)
    games = games_table(c)
    drows, df = dispatch_rows(c)
    eps = {e["fn"]["path"]: e for e in P.entry_points(c)}

    def chain(path, depth=0):
        """follow forwards to the function that constructs the address: -> (K, final target, [paths])"""
        seen = [path]
        e = eps.get(path)
        while e is not None and e["kind"] in ("forwards", "forwards-via") and e["target"] in eps and depth < 6:
            path = e["target"]
            seen.append(path)
            e = eps.get(path)
            depth += 1
        if e is None:
            return None, None, seen
        return e["default"], e["target"], seen
    # special app ids the protocol code itself compares against
    special = set()
    for f in c.fns:
        if f["path"].startswith("gamedig::protocols::valve::protocol") and f.get("hir"):
            for m in re.finditer(r"\*engine Eq new\((\d+)\)", H.show(f["hir"]["body"])):
                special.add(int(m.group(1)))
    default_gather = None
    gd = next((f for f in c.fns if f["path"].endswith("valve::types::{impl#7}::default") or (f["name"] == "default" and "valve::types::GatheringSettings" in f.get("self_ty", "") and not f.get("impl_trait"))), None)
    if gd is not None and gd.get("hir"):
        default_gather = norm_gather(H.show(H.strip(gd["hir"]["body"])))
    n_wr = 0
    for gid, d in games:
        proto = d.get("protocol", "")
        toks = tokens_for(proto)
        cand = [r for r in drows if all(any(t in x for x in r["ctx"]) for t in toks)]
        # innermost arm: the row with the longest context
        cand.sort(key=lambda r: -len(r["ctx"]))
        key = "games|%s" % gid
        if not cand:
            if toks and toks[0] in ("Protocol::Epic", "ProprietaryProtocol::Minetest"):
                continue
            rep.add(key + "|dispatch", "C14:dispatch", False, "no dispatcher arm found for protocol %s of game %s" % (proto, gid), d.get("at"))
            continue
        dr = cand[0]
        dcallee = dr["op"][5:].split("(")[0]
        dargs = dr["op"][dr["op"].index("(") + 1:-1]
        port_mode = "definition" if "socket_addr" in dargs else ("callee-default" if "port" in dargs else "?")
        try:
            D = int(d.get("default_port", "").replace("_", ""))
        except ValueError:
            D = c.consts.get("gamedig::" + d.get("default_port", ""), d.get("default_port"))
        # wrapper
        mod = ALIASES.get(gid, gid)
        wpaths = [p for p in eps if p in ("gamedig::games::%s" % mod, ) or re.match(r"^gamedig::games::(?:[a-z0-9_]+::)?%s(::protocol)?::query$" % re.escape(mod), p)
                  or p == "gamedig::games::" + mod]
        if "::" in mod:
            wpaths = [p for p in eps if p == "gamedig::games::" + mod]
        wpaths.sort(key=lambda p: ("protocol" in p, len(p)))
        if not wpaths:
            rep.add(key + "|wrapper", "C14:wrapper", True, "no dedicated module for %s (only the generic entry point): nothing to compare" % gid, d.get("at"), nontrivial=False)
            wK = None
        else:
            n_wr += 1
            wp = wpaths[0]
            wK, wtarget, wchain = chain(wp)
            # (a) port with none given
            eff = D if port_mode == "definition" else None
            if port_mode == "callee-default":
                # dispatcher hands (address, port) to the game's own function: its default applies
                tgt_path = next((p for p in eps if p.endswith(dcallee.split("<")[0]) or p.split("gamedig::")[-1] == dcallee), None)
                eff, _, _ = chain(tgt_path) if tgt_path else (None, None, None)
            ok = (eff == D) and (wK == D)
            # a wrapper that fans out to several protocol entry points (minecraft::query): every one of them must use the
            # table's port when none is given, because the generic path uses one address for all variants
            we = eps.get(wp)
            if ok and we is not None and len(we.get("targets", [])) > 1:
                for tg in we["targets"]:
                    k2, _, _ = chain(tg)
                    if k2 != D:
                        ok = False
                        wK = "%s (but %s uses %s)" % (wK, tg.split("gamedig::")[-1], k2)
            rep.add(key + "|port", "C14:port", ok,
                    "default port: table %s, generic path %s (%s), %s %s" % (D, eff, port_mode, wp.split("gamedig::")[-1], wK) +
                    ("" if ok else "  - the three paths do not reach the same port when none is given"), d.get("at"))
            # (b) protocol function
            dfn = dcallee
            in_chain = any(p.split("gamedig::")[-1] == dfn or p.endswith(dfn) for p in wchain) or (wtarget or "").split("gamedig::")[-1] == dfn or \
                (wtarget or "").endswith(dfn.split("::")[-1]) and dfn.split("::")[-2:-1] == (wtarget or "").split("::")[-2:-1]
            same_module = False
            if not in_chain and wtarget:
                # e.g. dispatcher calls protocols::gamespy::protocols::two::protocol::query, wrapper calls the same
                same_module = wtarget.split("gamedig::")[-1] == dfn
            okp = in_chain or same_module or _mc_equiv(gid, dfn, wchain, wtarget)
            rep.add(key + "|protocol-fn", "C14:protocol", okp,
                    "generic path calls %s; dedicated path %s -> %s" % (dfn, [p.split("gamedig::")[-1] for p in wchain], (wtarget or "?").split("gamedig::")[-1]), d.get("at"))
            # (c) engine and (d) gather settings for valve games
            if proto.startswith("Valve("):
                wf = c.fn(wchain[-1])
                wcall = None
                for n, par in H.walk(H.body_of(wf)) if wf is not None and wf.get("hir") else []:
                    if (H.callee(n) or "").endswith("protocols::valve::protocol::query"):
                        wcall = n
                if wcall is None:
                    rep.add(key + "|engine", "C14:engine", False, "wrapper %s does not call protocols::valve::query" % wp, d.get("at"))
                else:
                    args = H.call_args(wcall)
                    weng = H.show(args[1]).replace("protocols::valve::types::Engine::", "")
                    geng = proto[len("Valve("):-1].replace("protocols::valve::types::Engine::", "")
                    wg = norm_gather(H.show(args[2]).replace("core::option::Option::", ""))
                    gg = norm_gather(d.get("request_settings", ""))
                    if wg == GATHER_DEFAULT and default_gather:
                        wgx = default_gather
                    else:
                        wgx = wg
                    ggx = default_gather if (gg == GATHER_DEFAULT and default_gather) else gg
                    okg = wgx == ggx
                    rep.add(key + "|gather", "C14:gather", okg, "gather settings: table %s ; wrapper %s" % (ggx, wgx), d.get("at"))
                    if weng == geng:
                        rep.add(key + "|engine", "C14:engine", True, "engine %s on both paths" % geng, d.get("at"), nontrivial=False)
                    else:
                        ids = [int(x) for x in re.findall(r"\d+", weng + " " + geng)]
                        chk_off = "check_app_id: False" in wgx and "check_app_id: False" in ggx
                        obs = chk_off and not (set(ids) & special)
                        rep.add(key + "|engine", "C14:engine", obs,
                                "engine differs (table %s, wrapper %s) " % (geng, weng) + ("but is never compared on either path (app-id check off, no special-cased id)" if obs
                                else "and the difference is observable (app-id check on, or a special-cased app id)"), d.get("at"))
    # (e) the dispatcher's arms (callee and argument sources per protocol) agree with the reviewed table
    from .. import tracespec as TS
    TS.compare(rep, c, "C14", "C14:dispatch-table")
    # wrappers without a table row are listed (not violations: the property quantifies over table rows)
    if config == "baseline":
        rep.floor("GAMES rows", len(games), 96)
        rep.floor("games with a dedicated module compared", n_wr, 85)
        rep.floor("dispatcher call arms", len(drows), 18)
    rep.count("special_app_ids", len(special))
    rep.notes.append("app ids special-cased by the protocol code: %s" % sorted(special))
    rep.decided = ["for each of the %d GAMES rows: same default port on the generic, dedicated and protocol paths; same protocol function; "
                   "observationally equal engine; equal effective gather settings" % len(games)]
    rep.not_decided = ["equal responses for arbitrary server behaviour beyond equality of these parameters (hand-written wrappers that post-process, "
                       "e.g. Battalion 1944 rule overrides, are covered by C07's table)"]
    return rep


def _mc_equiv(gid, dfn, wchain, wtarget):
    """minecraft ids: dispatcher calls minecraft::protocol::query_*, the module wrapper calls the same protocol function"""
    if not gid.startswith("minecraft"):
        return False
    return (wtarget or "").split("gamedig::")[-1] == dfn or any(p.split("gamedig::")[-1].replace("games::minecraft::", "games::minecraft::protocol::") == dfn for p in wchain)
