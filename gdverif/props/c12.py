"""C12 - timeouts bound every blocking step (wiring only; no timing claim is decided).
D1 every `impl Socket::new` passes through its own apply_timeout on every Ok path; apply_timeout hands the read value
   to set_read_timeout and the write value to set_write_timeout; TCP connects with connect_timeout when configured;
D2 raw socket construction (UdpSocket::bind, TcpStream::connect*) happens only in the transport layer, and every
   Socket::new / HttpClient::new call receives the caller's own timeout settings (or a literal None => defaults, which
   are all non-zero Some);
D3 the HTTP agent gets read/write/connect timeouts from the same settings with the right pairing;
D4 the UDP bind address depends on the target's address family; the HTTP URL host is never a bare IpAddr rendering;
D5 UDP receive returns buf[..n] with n the recv_from count, TCP receive returns what read_to_end produced."""
import re
from ..core import Report
from . import common as K
from .. import mirq as Q
from ..mirlib import Body, callee_key

TRANSPORT = ("gamedig::socket::", "gamedig::capture::", "gamedig::http::")


def _promoted_is_none(f, op):
    b = Body(f)
    seen = 0
    while op and op[0] in ("copy", "move") and seen < 6:
        seen += 1
        sd = b.single_def(op[1][0])
        if not sd:
            return False
        rv = sd[2]
        if rv[0] == "use":
            op = rv[1]
        elif rv[0] == "ref":
            op = ["copy", rv[2]]
        else:
            return False
    if not op or op[0] != "const" or "promoted" not in op[1]:
        return False
    proms = f.get("promoted", [])
    idx = op[1]["promoted"]
    if idx >= len(proms):
        return False
    aggs = [s["rv"][1] for blk in proms[idx]["blocks"] for s in blk["stmts"] if s["k"] == "assign" and s["rv"][0] == "agg"]
    return bool(aggs) and all(a.get("path") == "core::option::Option" and a.get("variant") == "None" for a in aggs)


def _socket_impls(c):
    return [im for im in c.impls if im.get("trait") == "gamedig::socket::Socket"]


def run(tier, config):
    rep = Report("C12")
    c = K.crate("gamedig-lib", config)
    impls = _socket_impls(c)
    for im in impls:
        ty = im["self_ty"]
        newp = im["items"].get("new")
        atp = im["items"].get("apply_timeout")
        f = c.fn(newp) if newp else None
        if f is None or "mir" not in f:
            rep.add("socket::<%s as Socket>::new|exists" % ty, "C12:D1", False, "no body for Socket::new of %s" % ty)
            continue
        b = Body(f)
        name = Q.disp(f)
        # D1a: every Ok(..) construction of the result is dominated by the successor of an apply_timeout call
        dom = Q.blocks_dominated_by_call(f, lambda k, t: k.startswith("Socket::apply_timeout") or (t["fn"].get("res") or "") == atp)
        oks = [(bi, s) for bi, s, kd, ops in Q.aggregates(f, "core::result::Result") if kd["variant"] == "Ok"]
        # sockets wrapping another Socket impl delegate: accept when the inner Socket::new is called instead
        inner = [k for bi, t, k in Q.calls(f) if k.startswith("Socket::new@") and not k.startswith("Socket::new@" + ty)]
        ok = bool(oks) and all(bi in dom for bi, _ in oks)
        if not ok and inner:
            rep.add("%s|apply-timeout" % name, "C12:D1", True, "delegates construction to %s" % inner, f["span"], nontrivial=False)
        else:
            rep.add("%s|apply-timeout" % name, "C12:D1", ok,
                    "all %d Ok returns are dominated by apply_timeout" % len(oks) if ok else
                    "a success return of %s is not dominated by a call to apply_timeout: the socket would block forever on a silent server" % name, f["span"])
        # D1b: apply_timeout wiring
        g = c.fn(atp) if atp else None
        if g is not None and "mir" in g:
            sets = {}
            for bi, t, k in Q.calls(g):
                m = re.match(r"^(UdpSocket|TcpStream)::set_(read|write)_timeout", k)
                if m:
                    sets[m.group(2)] = Q.render(g, t["args"][1], 8)
            src = [Q.render(g, t["dest"] and ["copy", t["dest"]], 2) for bi, t, k in Q.calls(g) if k.startswith("TimeoutSettings::get_read_and_write_or_defaults")]
            if inner and not sets:
                rep.add("%s|wiring" % Q.disp(g), "C12:D1", True, "wrapper socket: timeouts applied by the inner socket", g["span"], nontrivial=False)
            else:
                okr = "read" in sets and re.search(r"get_read_and_write_or_defaults\(.*\)\.0$|\.0$", sets["read"]) is not None and "get_read_and_write" in sets["read"]
                okw = "write" in sets and sets["write"].endswith(".1") and "get_read_and_write" in sets["write"]
                rep.add("%s|wiring" % Q.disp(g), "C12:D1", bool(okr and okw),
                        "set_read_timeout <- %s ; set_write_timeout <- %s" % (sets.get("read"), sets.get("write")), g["span"])
    # get_read_and_write_or_defaults returns (read, write) in that order
    gr = c.fn("gamedig::protocols::types::{impl#5}::get_read_and_write_or_defaults") or next(
        (f for f in c.fns if f["path"].endswith("::get_read_and_write_or_defaults")), None)
    if gr is None:
        rep.add("TimeoutSettings::get_read_and_write_or_defaults|order", "C12:D1", False, "function not found")
    else:
        b = Body(gr)
        tuples = []
        for bi, blk in enumerate(b.blocks):
            for s in blk["stmts"]:
                if s["k"] == "assign" and s["rv"][0] == "agg" and s["rv"][1]["k"] == "tuple" and s["lhs"] == [0, []]:
                    tuples.append([b.render_operand(o, 4, names=False) for o in s["rv"][2]])
        ok = bool(tuples) and all(len(t) == 2 and "get_read" in t[0] and "get_write" in t[1] for t in tuples)
        rep.add("gamedig::protocols::types::TimeoutSettings::get_read_and_write_or_defaults|order", "C12:D1", ok, "returns %s" % tuples, gr["span"])
    # TCP connect_timeout
    tcp = next((c.fn(im["items"]["new"]) for im in impls if im["self_ty"].endswith("TcpSocketImpl")), None)
    if tcp is None:
        rep.add("socket::TcpSocketImpl::new|connect", "C12:D1", False, "TcpSocketImpl::new not found")
    else:
        # decided on the canonical term of the constructor (sym.py): the stream is
        #   match get_connect_or_default(settings) { Some(_) => connect_timeout(address, <that duration>); _ => connect(address) }
        # however it is spelled (map_or_else, match, if let)
        import re as _re
        from .. import tracespec as TS
        rows = TS.rows_of(c, tcp, {})
        txt = " ".join(rows)
        m = _re.search(r"match (\S*get_connect_or_default\(a1\)) \{Some\(_\) => TcpStream::connect_timeout\(a0, (\S*get_connect_or_default\(a1\))\.Some\); _ => TcpStream::connect\(a0\)\}", txt)
        ok = bool(m) and m.group(1) == m.group(2)
        n_conn = txt.count("TcpStream::connect")
        rep.add("%s|connect-timeout" % Q.disp(tcp), "C12:D1", ok,
                "the TCP stream is connect_timeout(address, d) when get_connect_or_default(settings) is Some(d) and connect(address) otherwise" if ok else
                "TcpSocketImpl::new does not choose connect_timeout(address, configured duration) / connect(address) on get_connect_or_default(settings): %s" % txt[:300], tcp["span"])
    # D2 raw socket constructors only in the transport layer
    raw = Q.find_calls(c, lambda k, p: k.split("@")[0] in ("UdpSocket::bind", "TcpStream::connect", "TcpStream::connect_timeout", "TcpListener::bind", "UdpSocket::connect"))
    n_raw = 0
    for f, bi, t, k in raw:
        if "::tests::" in f["path"]:
            continue
        n_raw += 1
        ok = f["path"].startswith(TRANSPORT)
        rep.add("%s|raw|%s" % (Q.disp(f), k.split("@")[0]), "C12:D2", ok,
                "%s called in %s" % (k, Q.disp(f)) + ("" if ok else " - outside the transport layer: this socket would not get the configured timeouts"), t.get("at"))
    # D2b timeout argument provenance at every Socket::new / HttpClient::new call
    n_new = 0
    for f, bi, t, k in Q.find_calls(c, lambda k, p: k.startswith("Socket::new") or k.startswith("HttpClient::new")):
        if "::tests::" in f["path"] or len(t["args"]) < 2:
            continue
        n_new += 1
        b = Body(f)
        r = b.render_operand(t["args"][1], 8, names=False)
        rn = b.render_operand(t["args"][1], 8, names=True)
        # the operand must resolve to a parameter / self field of type (&)Option<TimeoutSettings>, or a literal None
        roots = re.findall(r"arg(\d+)", r)
        ok = False
        why = r
        if roots:
            tys = [b.locals[int(x)]["ty"] for x in roots]
            ok = any("TimeoutSettings" in ty or ty.startswith(("&mut ", "&")) and "Self" in ty for ty in tys) or \
                any("TimeoutSettings" in b.locals[int(x)]["ty"] or "." in r for x in roots)
            ok = any("TimeoutSettings" in ty for ty in tys) or ("timeout" in rn)
        elif "Option::None" in r:
            ok = True
            rn = "literal None (defaults apply)"
        elif "const:&Option<" in r:
            # promoted `&None`: inspect the promoted body
            ok = _promoted_is_none(f, t["args"][1])
            rn = "literal &None (defaults apply)" if ok else "a promoted constant that is not None"
        if ok and rn.startswith("literal"):
            # a literal None is only acceptable where the caller has no timeout settings of its own to pass
            own = [l["ty"] for l in b.locals[1:b.argc + 1] if "TimeoutSettings" in l["ty"]]
            if own:
                ok = False
                rn = "literal None although the caller receives timeout settings (%s): the configured timeouts are dropped" % own[0]
        rep.add("%s|timeout-arg|%s" % (Q.disp(f), k.split("@")[-1][:40]), "C12:D2", ok,
                "timeout argument: %s" % (rn[:160]), t.get("at"))
    # const_default: all three Some(non-zero)
    cd = next((f for f in c.fns if f["path"].endswith("::const_default") and "TimeoutSettings" in f.get("self_ty", "")), None)
    if cd is None:
        rep.add("TimeoutSettings::const_default|nonzero", "C12:D2", False, "const_default not found")
    else:
        b = Body(cd)
        ok = False
        detail = ""
        for bi, s, kd, ops in Q.aggregates(cd):
            if kd["path"].endswith("TimeoutSettings"):
                vals = {}
                for name, o in zip(kd["fields"], ops):
                    vals[name] = b.render_operand(o, 6, names=False)
                detail = str(vals)
                def good(x):
                    m = re.match(r"^Option::Some\{Duration::from_(secs|millis)\((\d+)u64\)\}$", x)
                    return bool(m) and int(m.group(2)) > 0
                ok = all(good(vals.get(x, "")) for x in ("read", "write", "connect"))
        rep.add("gamedig::protocols::types::TimeoutSettings::const_default|nonzero", "C12:D2", ok, "defaults: %s" % detail, cd["span"])
    # D3 HTTP agent pairing
    hn = next((f for f in c.fns if f["path"].endswith("http::{impl#2}::new") or (f["name"] == "new" and "HttpClient" in f.get("self_ty", ""))), None)
    if hn is None:
        rep.add("http::HttpClient::new|timeouts", "C12:D3", False, "HttpClient::new not found")
    else:
        pair = {}
        for bi, t, k in Q.calls(hn):
            m = re.match(r"^AgentBuilder::timeout_(read|write|connect)$", k.split("@")[0])
            if m:
                pair[m.group(1)] = Q.render(hn, t["args"][1], 8)
        okr = "get_read_and_write_or_defaults" in pair.get("read", "") and ".0" in pair.get("read", "")
        okw = "get_read_and_write_or_defaults" in pair.get("write", "") and ".1" in pair.get("write", "")
        okc = "get_connect_or_default" in pair.get("connect", "")
        rep.add("%s|agent-timeouts" % Q.disp(hn), "C12:D3", bool(okr and okw and okc),
                "timeout_read <- %s | timeout_write <- %s | timeout_connect <- %s" % (pair.get("read", "")[:80], pair.get("write", "")[:80], pair.get("connect", "")[:80]), hn["span"])
        # D4b URL host must not be a bare IpAddr rendering
        bare = []
        for f in Q.bodies(c):
            if f["path"].startswith(hn["path"]):
                for bi, t, k in Q.calls(f):
                    if k in ("ToString::to_string@IpAddr", "Display::fmt@IpAddr") or k.startswith("ToString::to_string@IpAddr"):
                        bare.append((f, t))
        rep.add("%s|url-host" % Q.disp(hn), "C12:D4", not bare,
                "URL host is not produced by IpAddr::to_string (IPv6 literals need brackets)" if not bare else
                "URL host comes from IpAddr::to_string(): an IPv6 target yields an invalid URL", bare[0][1].get("at") if bare else hn["span"])
    # D4a UDP bind depends on the target address family
    udp = next((c.fn(im["items"]["new"]) for im in impls if im["self_ty"].endswith("UdpSocketImpl")), None)
    if udp is None:
        rep.add("socket::UdpSocketImpl::new|bind", "C12:D4", False, "UdpSocketImpl::new not found")
    else:
        b = Body(udp)
        for bi, t, k in Q.calls(udp):
            if k.startswith("UdpSocket::bind"):
                r = b.render_operand(t["args"][0], 8, names=False)
                # the bound address must be computed from the target (arg1): either rendered from it or chosen under a
                # branch on its discriminant that dominates the bind
                dep = "arg1" in r
                if not dep:
                    for x, blk in enumerate(b.blocks):
                        tt = blk["term"]
                        if tt and tt["k"] == "switch" and b.dominates(x, bi):
                            d = b.render_operand(tt["d"], 4, names=False)
                            if "discr(" in d and "arg1" in d:
                                dep = True
                rep.add("%s|bind-family" % Q.disp(udp), "C12:D4", dep,
                        "bind address %s depends on the target address" % r[:80] if dep else
                        "bind address is the constant %s whatever the target's family (an IPv6 target cannot be reached from an IPv4 socket)" % r[:60], t.get("at"))
        # D5 receive path
        ur = next((c.fn(im["items"]["receive"]) for im in impls if im["self_ty"].endswith("UdpSocketImpl")), None)
        if ur:
            b = Body(ur)
            ok = False
            detail = ""
            for bi, s, kd, ops in Q.aggregates(ur, "core::result::Result"):
                if kd["variant"] == "Ok" and s["lhs"] == [0, []]:
                    detail = b.render_operand(ops[0], 16, names=False)
                    ok = detail.startswith("slice::to_vec(") and "RangeTo{" in detail and "recv_from" in detail
            rep.add("%s|payload" % Q.disp(ur), "C12:D5", ok, "returns %s" % detail[:220], ur["span"])
            sizes = [b.render_operand(t["args"][1], 6, names=False) for bi, t, k in Q.calls(ur) if k.startswith("vec::from_elem")]
            rep.add("%s|buffer-size" % Q.disp(ur), "C12:D5", bool(sizes) and all("unwrap_or(arg2" in x for x in sizes),
                    "receive buffer length = %s" % sizes, ur["span"])
    from .. import tracespec as TS
    TS.compare(rep, c, "C12", "C12:settings-table")
    if config == "baseline":
        rep.floor("Socket impls", len(impls), 2)
        rep.floor("raw socket constructor sites", n_raw, 3)
        rep.floor("Socket::new / HttpClient::new call sites", n_new, 14)
    rep.decided = ["D1 apply_timeout on every socket construction path with read->read, write->write; TCP connect_timeout",
                   "D2 raw sockets only in the transport layer; every socket gets its caller's settings or non-zero defaults",
                   "D3 HTTP agent timeout pairing", "D4 address-family dependence of the UDP bind address and URL host",
                   "D5 UDP receive returns exactly the received prefix of a caller-sized buffer"]
    rep.not_decided = ["every timing claim (attempts x timeout, scheduling slack)", "kernel/OS behaviour", "payload integrity on the wire",
                       "behaviour on real IPv4/IPv6 loopback sockets"]
    return rep
