"""C20 - the game-id naming checker is total.
D1 every panic site reachable in the id-tests library is discharged, reviewed, or an exact-key known finding;
D2 every loop is iterator-driven; the only recursion is test_game_name_rule on the mod part, bounded by is_mod_name."""
import re
from ..core import Report
from . import common as K
from .. import mirq as Q, hirlib as H


def run(tier, config):
    rep = Report("C20")
    c = K.crate("gamedig_id_tests-lib", "baseline")
    n = K.ledger_obligations(rep, c, "C20", lambda s: True, kinds=("assert", "call"))
    nl = K.loop_obligations(rep, c)
    g = K.callgraph(c)
    sccs = [sorted(x) for x in g.sccs()]
    for comp in sccs:
        key = "recursion|" + ",".join(comp)
        if comp == ["gamedig_id_tests::test_game_name_rule"]:
            # bounded: the recursive call passes is_mod_name = true and sits under `if !is_mod_name`
            f = c.fn(comp[0])
            ok = False
            detail = "recursive call not found in HIR"
            for nnode, parents in H.walk(H.body_of(f)):
                if H.callee(nnode) == comp[0]:
                    args = H.call_args(nnode)
                    last_true = H.lit(args[-1]) is True
                    guards = [H.show(p[2]) for p in parents if p[0] == "if"]
                    guarded = any("!is_mod_name" in gd.replace(" ", "") for gd in guards)
                    ok = last_true and guarded
                    detail = "recursive call passes is_mod_name=%s under guards %s" % (H.show(args[-1]), guards[-2:])
            rep.add(key, "C20:D2", ok, detail, f["span"])
        else:
            rep.add(key, "C20:D2", False, "unreviewed recursion: %s" % comp)
    # D3 the decisions that read the proposed id: accept/reject must hinge on equality with the computed expected id, plus
    # the one format precondition the generator itself guarantees (ids are produced by to_lowercase())
    REVIEWED_ID_CONDITIONS = {
        "a1.to_lowercase().ne(a1)": "format precondition: the generator lower-cases every expected id, so its own answers pass",
        "(!a3 And (a1 Ne b_expected))": "mod names: retry on the mod part only when the full name does not match",
        "((a1 Ne b_expected) Or b_dup)": "final verdict: reject iff the id differs from the expected id (or duplicates an earlier one)",
    }
    f = c.fn("gamedig_id_tests::test_game_name_rule")
    found = []
    if f is not None and f.get("hir"):
        pnames = [H.show_pat(p) for p in f["hir"]["params"]]
        idn = pnames[1] if len(pnames) > 1 else "id"
        modn = pnames[3] if len(pnames) > 3 else "is_mod_name"
        for nnode, parents in H.walk(H.body_of(f)):
            if nnode[0] == "if":
                sshow = H.show(nnode[2])
                if re.search(r"\b%s\b" % re.escape(idn), sshow):
                    canon = re.sub(r"\b%s\b" % re.escape(idn), "a1", sshow)
                    canon = re.sub(r"\b%s\b" % re.escape(modn), "a3", canon)
                    # the other operand of an id comparison is the expected id; a trailing bool is the duplicate flag
                    canon = re.sub(r"\(a1 Ne ([A-Za-z_][A-Za-z_0-9]*)\)", "(a1 Ne b_expected)", canon)
                    canon = re.sub(r" Or ([A-Za-z_][A-Za-z_0-9]*)\)$", " Or b_dup)", canon)
                    found.append((canon, nnode[1].get("at")))
    for canon, at_ in found:
        ok = canon in REVIEWED_ID_CONDITIONS
        rep.add("gamedig_id_tests::test_game_name_rule|id-condition|%s" % canon[:70], "C20:D3", ok,
                REVIEWED_ID_CONDITIONS.get(canon, "an accept/reject decision on the proposed id that is not in the reviewed set: the checker may reject "
                                                  "(or accept) ids independently of the id it reports as expected: %s" % canon), at_)
    for canon in REVIEWED_ID_CONDITIONS:
        if canon not in [x for x, _ in found]:
            rep.add("gamedig_id_tests::test_game_name_rule|id-condition-missing|%s" % canon[:70], "C20:D3", False,
                    "reviewed decision `%s` is gone (anchor lost)" % canon)
    # the value stored as `expected` in the failure record is the value the verdict compared against
    rep.floor("panic sites in id-tests", n, 10)
    rep.floor("loops in id-tests", nl, 3)
    rep.decided = ["D3 every decision that reads the proposed id is either equality with the expected id or the generator-implied "
                   "lower-case precondition", "D1 panic sites of the checker are enumerated from MIR and discharged / reviewed; the two explicit panics on "
                   "`<digits>-<text>` names are recorded known findings", "D2 loops are iterator-driven; recursion depth is at most 2"]
    rep.not_decided = ["the accept-exactly-the-expected-id clause (value-level)", "that the shipped table passes (that is the existing test)"]
    return rep


EXTRA_CONFIGS = []
