"""C20 - the game-id naming checker is total.
D1 every panic site reachable in the id-tests library is discharged, reviewed, or an exact-key known finding;
D2 every loop is iterator-driven; the only recursion is test_game_name_rule on the mod part, bounded by is_mod_name."""
from ..core import Report
from . import common as K
from .. import mirq as Q, hirlib as H


def run(tier, config):
    rep = Report("C20")
    c = K.crate("gamedig_id_tests-lib", "baseline")
    n = K.ledger_obligations(rep, c, "C20", lambda s: True, kinds=("assert", "call"))
    nl = K.loop_obligations(rep, c)
    g = K.callgraph(c)
    sccs = [sorted(x) for x in g.sccs()]
    for comp in sccs:
        key = "recursion|" + ",".join(comp)
        if comp == ["gamedig_id_tests::test_game_name_rule"]:
            # bounded: the recursive call passes is_mod_name = true and sits under `if !is_mod_name`
            f = c.fn(comp[0])
            ok = False
            detail = "recursive call not found in HIR"
            for nnode, parents in H.walk(H.body_of(f)):
                if H.callee(nnode) == comp[0]:
                    args = H.call_args(nnode)
                    last_true = H.lit(args[-1]) is True
                    guards = [H.show(p[2]) for p in parents if p[0] == "if"]
                    guarded = any("!is_mod_name" in gd.replace(" ", "") for gd in guards)
                    ok = last_true and guarded
                    detail = "recursive call passes is_mod_name=%s under guards %s" % (H.show(args[-1]), guards[-2:])
            rep.add(key, "C20:D2", ok, detail, f["span"])
        else:
            rep.add(key, "C20:D2", False, "unreviewed recursion: %s" % comp)
    rep.floor("panic sites in id-tests", n, 10)
    rep.floor("loops in id-tests", nl, 3)
    rep.decided = ["D1 panic sites of the checker are enumerated from MIR and discharged / reviewed; the two explicit panics on "
                   "`<digits>-<text>` names are recorded known findings", "D2 loops are iterator-driven; recursion depth is at most 2"]
    rep.not_decided = ["the accept-exactly-the-expected-id clause (value-level)", "that the shipped table passes (that is the existing test)"]
    return rep


EXTRA_CONFIGS = []
