"""C08 - multi-datagram responses do not depend on arrival order (E8, necessary conditions).
A *reassembly loop* is a loop that receives datagrams without sending. For each one:
R1 completion: the loop must end on a count of fragments or on silence, not solely on a flag carried by one datagram
   (a 'final'/'last' flag arriving early would end reassembly with fragments missing);
R2 ordered folds: data from the datagrams that is appended (push/extend, directly or through a callee) to a collection
   that is part of the result must pass through a sort keyed on a datagram field, or be placed by id (slot / map key);
R3 no fragment bypasses the sorted collection (the first-received fragment included)."""
from ..core import Report
from . import common as K
from .. import mirq as Q, loops as L
from ..cg import is_socket_receive, is_socket_send
from ..mirlib import Body, callee_key

PUSHES = ("Vec::push", "Vec::insert", "Vec::extend_from_slice", "Vec::extend", "Extend::extend", "Vec::append", "String::push_str", "VecDeque::push_back")
SHRINKERS = ("Vec::resize", "Vec::resize_with", "Vec::truncate", "Vec::clear", "Vec::pop", "Vec::remove", "Vec::swap_remove", "Vec::drain", "Vec::retain",
             "Vec::split_off", "Vec::dedup", "Vec::dedup_by_key", "HashMap::clear", "HashMap::retain", "HashMap::drain", "VecDeque::clear", "VecDeque::truncate",
             "String::clear", "String::truncate")
SORTS = ("slice::sort_by", "slice::sort_by_key", "slice::sort", "slice::sort_unstable_by", "slice::sort_unstable_by_key", "slice::sort_unstable", "slice::sort_by_cached_key")


def _reaches_recv(g, t):
    fn = t["fn"]
    p = fn.get("res") or fn["raw"]
    if is_socket_receive(p) or p == "gamedig::socket::Socket::receive":
        return True
    if g.reaches(p, is_socket_receive):
        return True
    return any(is_socket_receive(ip) or g.reaches(ip, is_socket_receive) for ip in g.trait_impls.get(fn["raw"], [])) if fn.get("res") is None else False


def _reaches_send(g, t):
    fn = t["fn"]
    p = fn.get("res") or fn["raw"]
    return is_socket_send(p) or p == "gamedig::socket::Socket::send" or g.reaches(p, is_socket_send)


def _callee_pushes(c, g, path, seen=None):
    """does local fn `path` (transitively, through &mut self/param) append data to a collection?"""
    seen = seen or set()
    if path in seen:
        return False
    seen.add(path)
    f = c.fn(path)
    if f is None or "mir" not in f:
        return False
    for bi, t, k in Q.calls(f):
        if k.split("@")[0] in PUSHES:
            return True
        p = t["fn"].get("res")
        if p and t["fn"].get("local") and _callee_pushes(c, g, p, seen):
            return True
    return False


def run(tier, config):
    rep = Report("C08")
    c = K.crate("gamedig-lib", config)
    g = K.callgraph(c)
    n_loops = 0
    for f in Q.bodies(c):
        if f["path"].startswith(("gamedig::socket::", "gamedig::capture::", "gamedig::utils::")) or "::tests::" in f["path"]:
            continue
        b = Body(f)
        lps = L.classify(c, g, f)
        name = Q.disp(f)
        for li in lps:
            calls = [(bi, t, k) for bi, t, k in Q.calls(f) if bi in li.body]
            recv = [(bi, t, k) for bi, t, k in calls if _reaches_recv(g, t)]
            send = [(bi, t, k) for bi, t, k in calls if _reaches_send(g, t)]
            if not recv or send:
                continue  # not a reassembly loop (no receive, or a request/response exchange loop)
            # nested loops: only the outermost receive loop of a function body region is reported once
            n_loops += 1
            heads = [h for h, _ in b.loops()]
            key = "%s|reassembly#%d" % (name, heads.index(li.head) + 1)
            # ---- R1 completion
            exits = [(x, s) for x in li.body for s in b.succ[x] if s not in li.body]
            mode = None
            detail = ""
            if li.cls == "c:iterator" and "Range" in li.detail:
                mode, detail = "count", "bounded by a fragment count (%s)" % li.detail
            else:
                # exit tested on a bool that is assigned inside the loop => flag carried by a datagram
                flag = None
                for src, dst in exits:
                    t = b.blocks[src]["term"]
                    if t and t["k"] == "switch":
                        l0 = L._chain_local(b, t["d"])
                        if l0 is None:
                            continue
                        srcs = [l0]
                        d0 = L._def_of(b, l0)
                        if d0 and d0[0] == "un" and d0[1] == "Not":
                            x = L._chain_local(b, d0[2])
                            if x is not None:
                                srcs.append(x)
                        for x in srcs:
                            if b.locals[x]["ty"] == "bool" and b.locals[x].get("name"):
                                ins = [bi for (bi, si, rv, proj) in b.defs().get(x, []) if bi in li.body]
                                if ins:
                                    flag = b.locals[x]["name"]
                if flag:
                    mode, detail = "flag", "the loop ends when `%s` is set from the content of a single datagram" % flag
                elif li.cls == "a:receive":
                    mode, detail = "silence", "the loop ends when receive fails (silence) or a parse error occurs"
                else:
                    mode, detail = "other", "exit class %s" % li.cls
            rep.add(key + "|completion", "C08:R1", mode in ("count", "silence"),
                    "completion of %s: %s" % (name, detail) + ("" if mode in ("count", "silence") else
                    " - a fragment carrying the flag that arrives before the others ends reassembly early"), li.at)
            # ---- R2 ordered folds
            ordered = []
            for bi, t, k in calls:
                base = k.split("@")[0]
                if base in PUSHES:
                    val = b.render_operand(t["args"][1], 6, names=False) if len(t["args"]) > 1 else ""
                    tgt = b.render_operand(t["args"][0], 4, names=True)
                    data_derived = any(x in val for x in ("Buffer::", "remaining_bytes", "read", "SplitPacket", "parse", "Try::branch", "to_vec", "clone"))
                    if base == "Vec::insert" and len(t["args"]) > 2:
                        val = b.render_operand(t["args"][2], 6, names=False)
                        data_derived = any(x in val for x in ("Buffer::", "remaining_bytes", "read", "SplitPacket", "parse", "Try::branch", "to_vec", "clone"))
                    if base.startswith(("Vec::push", "Vec::insert")) and not data_derived:
                        continue  # filler values (Vec::new()) are not data
                    ordered.append((bi, t, "push into %s" % tgt, t["args"][0]))
                elif t["fn"].get("local") and t["fn"].get("res") and _callee_pushes(c, g, t["fn"]["res"]):
                    # a callee that appends: relevant if it takes a &mut receiver that outlives the loop
                    a0 = t["args"][0] if t["args"] else None
                    if a0 and a0[0] in ("copy", "move") and b.locals[a0[1][0]]["ty"].startswith("&mut ") and "Buffer<" not in b.locals[a0[1][0]]["ty"]:
                        ordered.append((bi, t, "%s appends to %s" % (k, b.render_operand(a0, 4, names=True)), a0))
            sorts = [(bi, t, k) for bi, t, k in Q.calls(f) if k.split("@")[0] in SORTS]
            for (bi, t, what, tgt_op) in ordered:
                root = L._container_root(b, tgt_op)
                # is the target part of the result? (returned local, or a &mut param / self field)
                sorted_after = [s for s in sorts if L._container_root(b, s[1]["args"][0]) == root and s[0] not in li.body]
                returned = _flows_to_result(b, root)
                if not returned:
                    rep.add(key + "|fold|" + what[:60], "C08:R2", True, "%s: bookkeeping only (not part of the result)" % what, t.get("at"), nontrivial=False)
                    continue
                ok = bool(sorted_after)
                rep.add(key + "|fold|" + what[:60], "C08:R2", ok,
                        "%s in arrival order; %s" % (what, "sorted after the loop by %s" % sorted_after[0][2] if ok else
                                                    "no sort keyed on a datagram field follows and the format carries no usable id: the result lists follow arrival order"), t.get("at"))
            # ---- R4 nothing inside the loop may discard what earlier datagrams contributed: a shrinking / clearing call on a
            # collection that reaches the result makes the outcome depend on which datagram came last
            for bi, t, k in calls:
                base = k.split("@")[0]
                if base in SHRINKERS and t["args"]:
                    root = L._container_root(b, t["args"][0])
                    if _flows_to_result(b, root):
                        rep.add(key + "|discard|" + base, "C08:R4", False,
                                "%s on %s inside the reassembly loop can drop fragments stored by earlier datagrams (e.g. a lower-numbered fragment arriving after a higher one)" % (
                                    base, b.render_operand(t["args"][0], 4, names=True)), t.get("at"))
            # ---- R3 no fragment bypasses the sort (only where a sort exists)
            if sorts:
                for (sbi, st, sk) in sorts:
                    root = L._container_root(b, st["args"][0])
                    frag_calls = [(bi, t, k) for bi, t, k in Q.calls(f) if k.endswith("SplitPacket::new") or k.split("@")[0].endswith("SplitPacket::new")]
                    pushed = 0
                    for bi, t, k in Q.calls(f):
                        if k.split("@")[0] == "Vec::push" and L._container_root(b, t["args"][0]) == root:
                            if "SplitPacket::new" in b.render_operand(t["args"][1], 8, names=False):
                                pushed += 1
                    ok = len(frag_calls) > 0 and pushed == len(frag_calls)
                    rep.add(key + "|all-fragments-sorted", "C08:R3", ok,
                            "%d of %d fragment constructions are pushed into the sorted collection" % (pushed, len(frag_calls)) +
                            ("" if ok else ": a fragment (the first one received?) bypasses the sort by number"), st.get("at"))
    if config == "baseline":
        rep.floor("reassembly loops", n_loops, 5)
    rep.decided = ["R1 completion by count or silence, never by a single datagram's flag", "R2 ordered folds of datagram data into the result are sorted by a datagram field or placed by id",
                   "R3 every fragment passes through the sort", "R4 no shrinking / clearing call on the fragment store inside the loop"]
    rep.not_decided = ["that all permutations actually yield equal values (needs execution); these are necessary conditions",
                       "duplicate-fragment behaviour beyond the keyed-sink rule"]
    return rep


def _flows_to_result(b, root):
    """is the container rooted at `root` (local, proj) returned or reachable from a &mut parameter / self?"""
    if root is None:
        return True
    l, proj = root
    if l == 0:
        return True
    if 1 <= l <= b.argc:
        return True
    # moved into the return place (directly, in Ok(..), or as a struct field)
    seen = {l}
    work = [l]
    while work:
        x = work.pop()
        for bi, blk in enumerate(b.blocks):
            for s in blk["stmts"]:
                if s["k"] != "assign":
                    continue
                ops = Q._rv_ops(s["rv"])
                if any(o[0] in ("copy", "move") and o[1][0] == x for o in ops) or (s["rv"][0] in ("ref",) and s["rv"][2][0] == x):
                    d = s["lhs"][0]
                    if d == 0:
                        return True
                    if d not in seen:
                        seen.add(d)
                        work.append(d)
            t = blk["term"]
            if t and t["k"] == "call" and any(o[0] in ("copy", "move") and o[1][0] == x for o in t["args"]):
                # any value computed from the collection may carry its order into the result
                d = t["dest"][0]
                if d == 0:
                    return True
                if d not in seen and b.locals[d]["ty"] not in ("bool", "()", "usize"):
                    seen.add(d)
                    work.append(d)
    return False
