"""C17 - packet reader and wire codecs.
D1 INV-CURSOR: Buffer.cursor <= Buffer.data.len() is established by every constructor and preserved by every
   function that can write the field (proved with the value analysis; the string decoders through a per-impl contract);
D2 on every Err return of read / move_cursor / switch_endian_chunk / read_string the cursor equals its entry value, and
   read advances by size_of::<T>();
D3 the BufferRead impls pair each integer/float type with the byteorder reader of the same name and the buffer's own B;
D4 every panic site inside the reader, the decoders and the VarInt codec is discharged (shared engine with C01);
D5 VarInt: decoder loop bound 5 with the 5th-byte check dominating, encoder emits at most 5 bytes."""
import re
from ..core import Report
from . import common as K
from .. import sites as S
from ..absint import Interp
from ..mirlib import Body, callee_key

C17_FILES = ("crates/lib/src/buffer.rs", "crates/lib/src/games/minecraft/types.rs", "crates/lib/src/utils.rs")
C17_FNS = ("Unreal2StringDecoder as StringDecoder", "minecraft::types::get_varint", "minecraft::types::as_varint",
           "minecraft::types::get_string", "minecraft::types::as_string", "utils::u8_lower_upper", "gamedig::buffer::")

_status = {}


def _is_c17_site(s):
    return s.fn.startswith("gamedig::buffer::") or any(x in s.fn for x in C17_FNS)


def _buffer_writers(c):
    """functions that store to a Buffer's cursor field or take &mut of it"""
    res = {}
    for f in c.fns:
        if "mir" not in f or f["macro"].startswith("X:"):
            continue
        m = f["mir"]
        for bi, b in enumerate(m["blocks"]):
            for si, s in enumerate(b["stmts"]):
                if s["k"] != "assign":
                    continue
                for pl, how in ((s["lhs"], "store"), (s["rv"][2] if s["rv"][0] == "ref" and s["rv"][1] == "mut" else None, "mutref")):
                    if pl is None:
                        continue
                    proj = pl[1]
                    if proj and isinstance(proj[-1], list) and proj[-1][0] == "f" and proj[-1][2] == "cursor":
                        base_ty = m["locals"][pl[0]]["ty"]
                        if "Buffer<" in base_ty:
                            res.setdefault(f["path"], []).append((bi, si, how))
    return res


def _buffer_aggregates(c):
    out = []
    for f in c.fns:
        if "mir" not in f or f["macro"].startswith("X:"):
            continue
        for bi, b in enumerate(f["mir"]["blocks"]):
            for s in b["stmts"]:
                if s["k"] == "assign" and s["rv"][0] == "agg" and s["rv"][1].get("path") == "gamedig::buffer::Buffer":
                    kd = s["rv"][1]
                    ops = s["rv"][2]
                    idx = kd["fields"].index("cursor")
                    out.append((f, bi, ops[idx], s.get("at")))
    return out


def decoder_impls(c):
    return [f for f in c.fns if f.get("impl_trait", "").endswith("buffer::StringDecoder") and f["name"] == "decode_string" and "mir" in f]


def decoder_contract(c):
    """per impl: the only stores through `cursor` are `*cursor = *cursor + inc` with inc <= data.len(), at most once
    on any path. -> list of (fn display, ok, detail, at)"""
    an = K.analysis(c)
    out = []
    for f in decoder_impls(c):
        b = Body(f)
        it = an.interp(f["path"])
        name = S.fn_display(f)
        stores = []
        for bi, blk in enumerate(b.blocks):
            if blk["cleanup"]:
                continue
            for si, s in enumerate(blk["stmts"]):
                if s["k"] == "assign" and s["lhs"] == [2, ["*"]]:
                    stores.append((bi, si, s))
            t = blk["term"]
            if t and t["k"] == "call":
                # the cursor reference must not be handed to other code
                for a in t["args"]:
                    if a[0] in ("copy", "move") and a[1][0] == 2 and not a[1][1]:
                        out.append((name, False, "the cursor reference is passed to %s" % (callee_key(t["fn"]) if "fn" in t else "a call"), t.get("at")))
        if it is None:
            out.append((name, False, "decoder body could not be analysed", f["span"]))
            continue
        if not stores:
            out.append((name, False, "decoder never advances the cursor", f["span"]))
            continue
        loops = b.loops()
        for (bi, si, s) in stores:
            at = s.get("at")
            if any(bi in body for _, body in loops):
                out.append((name, False, "cursor store inside a loop", at))
                continue
            others = [x for (x, _, _) in stores if x != bi]
            if any(_reaches(b, bi, o) for o in others) or sum(1 for (x, _, _) in stores if x == bi) > 1:
                out.append((name, False, "more than one cursor store on a path", at))
                continue
            rv = s["rv"]
            ok = False
            detail = "stored value is not `*cursor + inc`"
            if rv[0] == "use" and rv[1][0] in ("move", "copy") and rv[1][1][1] and rv[1][1][1][0][0] == "f":
                tl = rv[1][1][0]
                sd = b.single_def(tl)
                if sd and sd[2][0] == "bin" and sd[2][1] == "AddWithOverflow" and sd[2][2][0] in ("copy", "move") and sd[2][2][1] == [2, ["*"]]:
                    inc = sd[2][3]
                    st = it.state_before_term(sd[0]) if sd[1] != "term" else None
                    # state right after the defining statement: re-run the block up to it
                    st = _state_at(it, sd[0], sd[1])
                    v = it.op_val(inc, st)
                    if it.leq(st, v, "len:_1*", 0):
                        ok = True
                        detail = "*cursor += %s with %s <= data.len()" % (b.render_operand(inc, 3), b.render_operand(inc, 3))
                    else:
                        detail = "advance %s is not provably <= data.len()" % b.render_operand(inc, 3)
            out.append((name, ok, detail, at))
    return out


def _state_at(it, bi, si):
    st = it.instates.get(bi)
    if st is None:
        return None
    st = st.copy()
    for i, s in enumerate(it.b.blocks[bi]["stmts"]):
        if i >= si:
            break
        it.exec_stmt(s, st)
    return st


def _reaches(b, a, z):
    seen = set()
    st = list(b.succ[a])
    while st:
        x = st.pop()
        if x == z:
            return True
        if x in seen:
            continue
        seen.add(x)
        st.extend(b.succ[x])
    return False


def decoder_contract_status(c):
    k = ("dc", id(c))
    if k not in _status:
        rows = decoder_contract(c)
        bad = [r for r in rows if not r[1]]
        _status[k] = (not bad and len(rows) >= 4, "decoder contract holds for %d stores in %d impls" % (len(rows), len(decoder_impls(c)))
                      if not bad else "decoder contract fails: %s: %s" % (bad[0][0], bad[0][2]))
    return _status[k]


def inv_cursor(c):
    """-> list of (key, ok, detail, at)"""
    an = K.analysis(c)
    out = []
    # (i) constructors
    for f, bi, op, at in _buffer_aggregates(c):
        ok = op[0] == "const" and op[1].get("v") == 0
        out.append(("%s|INV-CURSOR|construct" % S.fn_display(f), ok,
                    "Buffer constructed with cursor = %s" % ("0" if ok else Body(f).render_operand(op, 3)), at))
    # (ii) writers preserve the invariant at every return
    writers = _buffer_writers(c)
    for path, ws in sorted(writers.items()):
        f = c.fn(path)
        name = S.fn_display(f)
        b = Body(f)
        if not re.match(r"^&mut buffer::Buffer<", b.locals[1]["ty"] if b.argc >= 1 else ""):
            out.append(("%s|INV-CURSOR|writer" % name, False,
                        "writes Buffer.cursor but is not a &mut self method of Buffer (the field must stay private to the reader)", f["span"]))
            continue
        it = an.interp(path)
        if it is None:
            out.append(("%s|INV-CURSOR|writer" % name, False, "could not be analysed", f["span"]))
            continue
        bad = None
        for bi, st in it.ret_states:
            if not it.leq(st, "_1*.cursor", "len:_1*.data*", 0):
                bad = bi
        out.append(("%s|INV-CURSOR|writer" % name, bad is None,
                    "cursor <= data.len() at all %d return states given it at entry" % len(it.ret_states) if bad is None
                    else "cannot show cursor <= data.len() at the return through block %d" % bad, f["span"]))
        # D2: Err returns leave the cursor unchanged
        badu = None
        nerr = 0
        for bi, st in it.ret_states:
            v = st.variants.get("_0")
            if v == 1 or v is None:
                nerr += 1
                if not (it.leq(st, "_1*.cursor", "ghost:cursor0", 0) and it.leq(st, "ghost:cursor0", "_1*.cursor", 0)):
                    if v == 1:
                        badu = bi
                    elif v is None and not it.leq(st, "_1*.cursor", "len:_1*.data*", 0):
                        badu = bi
        if name.endswith(("::read", "::move_cursor", "::switch_endian_chunk")):
            out.append(("%s|UNCHANGED-ON-ERR" % name, badu is None,
                        "every Err return has cursor == entry cursor" if badu is None else
                        "an Err return (block %d) may leave the cursor moved" % badu, f["span"]))
    return out


def inv_cursor_status(c):
    k = ("inv", id(c))
    if k not in _status:
        rows = inv_cursor(c)
        bad = [r for r in rows if not r[1] and "INV-CURSOR" in r[0]]
        dc = decoder_contract_status(c)
        if not dc[0]:
            _status[k] = (False, "INV-CURSOR depends on the decoder contract: " + dc[1])
        else:
            _status[k] = (not bad and len(rows) >= 5, "INV-CURSOR proved over %d constructors/writers" % len(rows) if not bad
                          else "INV-CURSOR fails: %s: %s" % (bad[0][0], bad[0][2]))
    return _status[k]


def read_advance(c):
    """D2b: Buffer::read stores cursor + size_of::<T>() and decodes exactly data[cursor .. cursor + size_of::<T>()] of the
    entry state - decided on the canonical term of the function (sym.py), so that introducing locals, reordering pure
    statements or other restyling does not matter"""
    from .. import sym as SY
    f = [f for f in c.fns if f["path"].endswith("buffer::{impl#0}::read")]
    if not f:
        return [("gamedig::buffer::Buffer::read|ADVANCE", False, "Buffer::read not found", None)]
    f = f[0]
    name = S.fn_display(f)
    sy = SY.Sym(c, lambda p: False, None)
    eff = sy.run_unit(f)
    pr = SY.Printer(sy)
    sets, rets = [], []

    def walk(es):
        for e in es:
            if e[0] == "set":
                sets.append(e)
            elif e[0] == "ret":
                rets.append(e)
            elif e[0] == "if":
                walk(e[2]); walk(e[3])
            elif e[0] == "guard":
                walk(e[2])
            elif e[0] == "match":
                for arm in e[2]:
                    walk(arm[2])
            elif e[0] == "loop":
                walk(e[5])
    walk(eff)
    rows = []
    cur_sets = [e for e in sets if pr.show(e[1]) == "a0.cursor"]
    want = "(a0.cursor Add size_of<T>())"
    for e in cur_sets:
        got = pr.show(e[2])
        rows.append(("%s|ADVANCE" % name, got == want, "cursor := %s" % got, e[3]))
    if len(cur_sets) != 1:
        rows.append(("%s|ADVANCE|stores" % name, False, "%d stores to the cursor in Buffer::read (expected exactly one)" % len(cur_sets), f["span"]))
    others = [e for e in sets if pr.show(e[1]) != "a0.cursor"]
    for e in others:
        rows.append(("%s|ADVANCE|other-store" % name, False, "Buffer::read writes %s" % pr.show(e[1]), e[3]))
    want_ret = "BufferRead::read_from_buffer(a0.data[a0.cursor..(a0.cursor Add size_of<T>())])?"
    for e in rets:
        got = pr.show(e[1])
        rows.append(("%s|WINDOW" % name, got == want_ret, "returns %s" % got, e[2]))
    if not rets:
        rows.append(("%s|WINDOW" % name, False, "no success return found in Buffer::read", f["span"]))
    return rows


def bufferread_pairing(c):
    """D3: impl BufferRead<B> for T calls B::read_<T>"""
    rows = []
    for f in c.fns:
        if f.get("impl_trait", "").endswith("buffer::BufferRead") and f["name"] == "read_from_buffer" and "mir" in f:
            ty = f["self_ty"]
            calls = [callee_key(b["term"]["fn"]) for b in f["mir"]["blocks"]
                     if b["term"] and b["term"]["k"] == "call" and "fn" in b["term"] and callee_key(b["term"]["fn"]).startswith("ByteOrder::")]
            if ty in ("u8", "i8"):
                rows.append(("gamedig::buffer::<%s as BufferRead>|PAIRING" % ty, not calls, "single-byte type reads the first byte", f["span"]))
                continue
            want = "ByteOrder::read_%s@B" % ty
            rows.append(("gamedig::buffer::<%s as BufferRead>|PAIRING" % ty, calls == [want],
                         "calls %s (expected %s)" % (calls, want), f["span"]))
    return rows


def read_slice_width_status(c):
    """Buffer::read hands read_from_buffer exactly data[cursor .. cursor + size_of::<T>()]"""
    f = next((f for f in c.fns if f["path"].endswith("buffer::{impl#0}::read")), None)
    if f is None:
        return False, "Buffer::read not found"
    b = Body(f)
    for bi, blk in enumerate(b.blocks):
        t = blk["term"]
        if t and t["k"] == "call" and "fn" in t and callee_key(t["fn"]).startswith("BufferRead::read_from_buffer"):
            r = b.render_operand(t["args"][0], 10, names=False).replace(" ", "")
            want = "&*Index::index@[u8]@Range<usize>(&**arg1.data,Range::Range{*arg1.cursor,(*arg1.cursor+mem::size_of()).0})"
            if r == want:
                return True, "read_from_buffer receives data[cursor .. cursor + size_of::<T>()]"
            return False, "read_from_buffer receives %s" % r
    return False, "Buffer::read no longer calls read_from_buffer"


def pairing_status(c):
    rows = bufferread_pairing(c)
    bad = [r for r in rows if not r[1]]
    return (not bad and len(rows) >= 10), ("type/reader pairing holds for %d impls" % len(rows) if not bad else "pairing broken: %s" % bad[0][2])


def rules_for(c):
    return {"INV-CURSOR": lambda: inv_cursor_status(c), "DECODER-CONTRACT": lambda: decoder_contract_status(c),
            "READ-SLICE-WIDTH": lambda: read_slice_width_status(c), "PAIRING": lambda: pairing_status(c)}


def varint_rules(c):
    rows = []
    an = K.analysis(c)
    gv = [f for f in c.fns if f["path"].endswith("minecraft::types::get_varint")]
    av = [f for f in c.fns if f["path"].endswith("minecraft::types::as_varint")]
    for f, what in ((gv, "get_varint"), (av, "as_varint")):
        if not f:
            rows.append(("minecraft::types::%s|VARINT" % what, False, "function not found", None))
            continue
        f = f[0]
        b = Body(f)
        # loop bound: the only loop iterates a Range{0, 5}
        rng = []
        for blk in b.blocks:
            for s in blk["stmts"]:
                if s["k"] == "assign" and s["rv"][0] == "agg" and s["rv"][1].get("path") == "core::ops::range::Range":
                    ops = s["rv"][2]
                    rng.append(tuple(o[1].get("v") if o[0] == "const" else None for o in ops))
        loops = b.loops()
        ok = len(loops) == 1 and rng == [(0, 5)]
        rows.append(("gamedig::games::minecraft::types::%s|VARINT|bound" % what, ok,
                     "one loop over %s (at most 5 bytes)" % (rng,), f["span"]))
        if what == "get_varint":
            # 5th byte check: a branch on (i == 4) and (byte & 0xf0 != 0) leading to an Err return
            r = " ".join(b.render_operand(blk["term"]["d"], 5, names=False) for blk in b.blocks if blk["term"] and blk["term"]["k"] == "switch")
            has_i4 = "== 4i32" in r
            has_mask = "& 240u8) != 0u8" in r
            rows.append(("gamedig::games::minecraft::types::get_varint|VARINT|overlong", has_i4 and has_mask,
                         "branches: %s" % r[:300], f["span"]))
            # the over-long check must be taken before the loop can be left through the continuation-bit test
            s_i4 = [bi for bi, blk in enumerate(b.blocks) if blk["term"] and blk["term"]["k"] == "switch" and "== 4i32" in b.render_operand(blk["term"]["d"], 5, names=False)]
            s_msb = [bi for bi, blk in enumerate(b.blocks) if blk["term"] and blk["term"]["k"] == "switch" and "& 128u8) == 0u8" in b.render_operand(blk["term"]["d"], 5, names=False).replace("var:u8", "128u8")]
            if not s_msb:
                # msb is a local constant (let msb = 0b1000_0000): match on the shape `(byte & <x>) == 0`
                s_msb = [bi for bi, blk in enumerate(b.blocks) if blk["term"] and blk["term"]["k"] == "switch"
                         and re.search(r"& [^)]*\) == 0u8", b.render_operand(blk["term"]["d"], 5, names=False)) and "240u8" not in b.render_operand(blk["term"]["d"], 5, names=False)]
            okd = bool(s_i4) and bool(s_msb) and all(b.dominates(s_i4[0], x) for x in s_msb)
            rows.append(("gamedig::games::minecraft::types::get_varint|VARINT|overlong-before-exit", okd,
                         "the 5th-byte check (block %s) dominates the continuation-bit exit (block %s)" % (s_i4[:1], s_msb) if okd else
                         "the continuation-bit exit %s is not dominated by the 5th-byte check %s: an over-long final byte can leave the loop unchecked" % (s_msb, s_i4), f["span"]))
    return rows


def run(tier, config):
    rep = Report("C17")
    c = K.crate("gamedig-lib", config)
    rules = rules_for(c)
    for name, ok, detail, at in decoder_contract(c):
        rep.add("%s|DECODER-CONTRACT|%s" % (name, re.sub(r"\d+", "N", detail)[:40]) if not ok else "%s|DECODER-CONTRACT" % name,
                "C17:decoder-contract", ok, detail, at)
    n_dec = len(decoder_impls(c))
    for key, ok, detail, at in inv_cursor(c):
        rep.add(key, "C17:" + key.split("|")[1].lower(), ok, detail, at)
    for key, ok, detail, at in read_advance(c) + bufferread_pairing(c) + varint_rules(c):
        rep.add(key, "C17:" + key.split("|")[1].lower(), ok, detail, at)
    from .. import tracespec as TS
    TS.compare(rep, c, "C17", "C17:kernel-table")
    n = K.ledger_obligations(rep, c, "C17", _is_c17_site, kinds=("assert", "call"), rules=rules)
    K.loop_obligations(rep, c, lambda f: f["path"].startswith("gamedig::buffer::") or "minecraft::types::" in f["path"])
    if config == "baseline":
        rep.floor("StringDecoder impls", n_dec, 4)
        rep.floor("Buffer.cursor writers+constructors", len(inv_cursor(c)), 7)
        rep.floor("BufferRead impls", len(bufferread_pairing(c)), 10)
        rep.floor("panic sites in reader/codecs", n, 30)
    rep.decided = [
        "D1 position stays within the packet: type invariant cursor <= data.len() proved by induction over every constructor and "
        "every function able to write the private field, string decoders through a per-impl advance <= data.len() contract",
        "D2 read/move_cursor/switch_endian_chunk leave the position unchanged on failure; read advances by size_of::<T>()",
        "D3 each BufferRead impl uses the byteorder reader of its own type and the buffer's byte order parameter",
        "D4 no slice/arith panic site in the reader, decoders, VarInt/string codec is left undischarged",
        "D5 VarInt decode loop reads at most 5 bytes and rejects a 5th byte with high bits; encode emits at most 5 bytes"]
    rep.not_decided = ["VarInt/string encode-decode being mutually inverse over all 2^32 values and all strings (value-level)",
                       "byte-order interpretation of values (delegated to byteorder)",
                       "conformance to a reference model over operation sequences beyond the clauses above"]
    return rep
