"""C18 - settings are validated; no accepted configuration can panic.
D1 every construction site of TimeoutSettings (hand-written and derive-generated bodies) is validated: preceded by the
   three is_zero checks, built from non-zero constants, or fed only by a value parser that rejects zero;
D2 the settings-dependent panic sites (socket timeout setters, the retry counter) are discharged;
D3 (thorough) compile-fail witness: the fields are private, so no other construction path exists outside the crate."""
import os, re, shutil, subprocess, tempfile
from ..core import Report, VERIF
from . import common as K
from .. import mirq as Q
from ..mirlib import Body, callee_key
from .c01 import is_settings_site

TS = "gamedig::protocols::types::TimeoutSettings"


def _parse_duration_contract(c):
    """parse_duration_secs: every Duration it returns in Ok(..) is non-zero"""
    f = next((f for f in c.fns if f["path"].endswith("protocols::types::parse_duration_secs")), None)
    if f is None:
        return None, "parse_duration_secs not found (clap feature off?)", None
    an = K.analysis(c)
    it = an.interp(f["path"])
    if it is None:
        return False, "could not analyse parse_duration_secs", f["span"]
    n = 0
    for bi, t, k in Q.calls(f):
        if k.startswith("Duration::from_"):
            n += 1
            st = it.state_before_term(bi)
            if st is None:
                continue
            v = it.op_val(t["args"][0], st)
            iv = it.iv_of(v, st)
            if iv[0] <= 0:
                return False, "parse_duration_secs can return Duration::from_secs(0): value in [%s, %s] at the constructor" % iv, t.get("at")
    if n == 0:
        return False, "no Duration constructor found in parse_duration_secs", f["span"]
    return True, "every Duration produced by parse_duration_secs is built from a value >= 1", f["span"]


def run(tier, config):
    rep = Report("C18")
    c = K.crate("gamedig-lib", config)
    an = K.analysis(c)
    sites = []
    for f in Q.bodies(c, include_external=True):
        for bi, s, kd, ops in Q.aggregates(f, TS):
            sites.append((f, bi, s, kd, ops))
    pd_ok, pd_detail, pd_at = _parse_duration_contract(c)
    for f, bi, s, kd, ops in sites:
        name = Q.disp(f)
        key = "%s|constructs-TimeoutSettings" % name
        b = Body(f)
        if f["macro"].startswith("X:clap") or (f.get("impl_trait") or "").startswith("clap"):
            # clap path: the three Option<Duration> args must use the validating value parser
            aug = [g for g in Q.bodies(c, True) if g.get("impl_trait") == "clap_builder::derive::Args" and "TimeoutSettings" in g.get("self_ty", "") and g["name"] == "augment_args"]
            vps = []
            for g in aug:
                gb = Body(g)
                for bj, t, k in Q.calls(g):
                    if k.startswith("Arg::value_parser"):
                        vps.append(gb.render_operand(t["args"][1], 3, names=False))
            n_pd = sum(1 for v in vps if "parse_duration_secs" in v)
            ok = bool(pd_ok) and n_pd >= 3
            rep.add(key, "C18:D1-clap", ok,
                    ("CLI flags: %d duration args use parse_duration_secs; " % n_pd) + pd_detail, s.get("at") or pd_at)
            continue
        if f["macro"].startswith("X:Deserialize") or "deserialize" in f["path"]:
            rep.add(key, "C18:D1-serde", False,
                    "derive(Deserialize) builds TimeoutSettings from the input without the zero-duration validation of TimeoutSettings::new "
                    "(e.g. {\"read\":{\"secs\":0,\"nanos\":0},..} is accepted)", s.get("at"))
            continue
        if f["path"].endswith("::const_default"):
            vals = {n: b.render_operand(o, 6, names=False) for n, o in zip(kd["fields"], ops)}
            good = all(re.match(r"^Option::Some\{Duration::from_(secs|millis)\([1-9]\d*u64\)\}$", vals.get(x, "")) for x in ("read", "write", "connect"))
            rep.add(key, "C18:D1-const", good, "defaults %s are non-zero" % vals, s.get("at"), nontrivial=False)
            continue
        # general case: the construction is dominated, for each duration field, by a false edge of is_zero on that field's value
        it = an.interp(f["path"])
        checks = {}
        for bj, t, k in Q.calls(f):
            if k.startswith("Duration::is_zero"):
                src = b.render_operand(t["args"][0], 6, names=True)
                nxt = t["t"]
                sw = b.blocks[nxt]["term"] if nxt is not None else None
                if sw and sw["k"] == "switch":
                    fall = [v[1] for v in sw["vals"] if v[0] == 0]
                    # the zero branch must not reach the construction
                    true_t = sw["else"]
                    reaches = _reaches(b, true_t, bi)
                    checks[src] = not reaches
        fields = {n: b.render_operand(o, 3, names=True) for n, o in zip(kd["fields"], ops)}
        ok = True
        miss = []
        for fld in ("read", "write", "connect"):
            param = fields.get(fld, "")
            hit = [src for src, good in checks.items() if good and fld in src]
            if not hit:
                ok = False
                miss.append(fld)
        rep.add(key, "C18:D1-checked", ok,
                "construction in %s is preceded by is_zero rejections of read, write and connect" % name if ok else
                "construction in %s is not guarded by an is_zero rejection for: %s" % (name, ", ".join(miss)), s.get("at"))
    # external crates (the CLI) must not construct it at all: fields are private -> enumerate to be sure
    cli = K.crate("gamedig_cli-bin", config) if config == "baseline" else None
    if cli is not None:
        ext = [Q.disp(f) for f in Q.bodies(cli, True) for _ in Q.aggregates(f, TS)]
        rep.add("gamedig_cli|constructs-TimeoutSettings", "C18:D1", not ext, "the CLI crate never builds TimeoutSettings field by field" if not ext else "constructed in %s" % ext, nontrivial=False)
    # D2 settings-dependent panic sites
    rules = {}
    n2 = K.ledger_obligations(rep, c, "C18", lambda s: is_settings_site(s) or "@Duration" in s.what or "Duration::" in s.what, rules=rules, label="settings-site")
    # the retry helper must not have an unchecked increment: covered by the ledger above when present; also make sure
    # the socket setters' results are not unwrapped anywhere else
    unwraps = Q.find_calls(c, lambda k, p: k.split("@")[0] in ("Result::unwrap", "Result::expect"))
    for f, bi, t, k in unwraps:
        if "::tests::" in f["path"]:
            continue
        r = Body(f).render_operand(t["args"][0], 4, names=False)
        if "set_read_timeout" in r or "set_write_timeout" in r or "set_nonblocking" in r:
            pass  # reported by the ledger as a settings site
    if config == "baseline":
        rep.floor("TimeoutSettings construction sites", len(sites), 5)
    rep.decided = ["D1 all %d construction sites of TimeoutSettings are validated (constructor checks, constants, CLI value parser); derive(Deserialize) sites are reported" % len(sites),
                   "D2 socket timeout setters and the retry counter cannot panic for any accepted settings",
                   "D3 (thorough) the struct cannot be built from outside the crate except through new/default/const_default (compile-fail witness)"]
    rep.not_decided = ["OS behaviour for extreme durations", "running a query with each accepted combination (no execution)"]
    return rep


def _reaches(b, a, z):
    if a == z:
        return True
    seen = set()
    st = [a]
    while st:
        x = st.pop()
        if x == z:
            return True
        if x in seen:
            continue
        seen.add(x)
        st.extend(b.succ[x])
    return False


def thorough_extra(rep):
    """compile-fail witnesses (rustdoc compile_fail with error codes, nightly) in /verif/witness"""
    res = run_witness()
    rep.add("witness|TimeoutSettings-private-fields", "C18:D3", res[0], res[1])
    return {"witness": res[1]}


def run_witness():
    wdir = os.path.join(VERIF, "witness")
    if not os.path.isdir(wdir):
        return False, "witness crate missing"
    from .. import facts
    tmp = tempfile.mkdtemp(prefix="gdwitness_")
    try:
        shutil.copytree(wdir, os.path.join(tmp, "w"), ignore=shutil.ignore_patterns("target"))
        w = os.path.join(tmp, "w")
        cargo = open(os.path.join(w, "Cargo.toml")).read().replace("/repo", facts.REPO)
        open(os.path.join(w, "Cargo.toml"), "w").write(cargo)
        shutil.copy(os.path.join(facts.REPO, "Cargo.lock"), os.path.join(w, "Cargo.lock"))
        env = dict(os.environ, CARGO_NET_OFFLINE="true", CARGO_TARGET_DIR=os.path.join(tmp, "t"))
        p = subprocess.run(["cargo", "+nightly", "test", "--doc", "--offline"], cwd=w, env=env, stdout=subprocess.PIPE, stderr=subprocess.STDOUT, text=True)
        tail = "\n".join(p.stdout.strip().splitlines()[-6:])
        ok = p.returncode == 0 and "test result: ok" in p.stdout
        return ok, ("compile-fail witnesses and their compiling twins pass: " if ok else "witness run failed: ") + tail[-400:]
    finally:
        shutil.rmtree(tmp, ignore_errors=True)
