"""E2: loop-exit classification. Every natural loop must have an exit that silence, input exhaustion, a finite
iterator or a monotone counter forces. Necessary condition for 'returns once the server has gone silent'."""
from .mirlib import Body, callee_key
from .cg import is_socket_receive

FINITE_ITER_HEADS = ("Range<", "RangeInclusive<", "Iter<", "IterMut<", "IntoIter<", "Chunks<", "ChunksExact<", "Split<",
                     "SplitN<", "Values<", "Keys<", "Drain<", "Chars<", "Bytes<", "Lines<", "CharIndices<",
                     "SplitWhitespace<", "Windows<", "ValuesMut<", "IntoValues<", "IntoKeys<", "Peekable<",
                     "Enumerate<", "Map<", "Filter<", "Skip<", "Take<", "Zip<", "Rev<", "Cloned<", "Copied<",
                     "FilterMap<", "StepBy<", "Chain<", "TakeWhile<", "SkipWhile<", "Flatten<", "FlatMap<")
INFINITE_ITER = ("Repeat<", "RepeatWith<", "RangeFrom<", "Cycle<", "FromFn<", "Successors<")
CONSUMING = ("Buffer::read", "Buffer::read_string", "Buffer::switch_endian_chunk")
REMAINING = ("Buffer::remaining_length", "Buffer::remaining_bytes")


def _iter_ty_ok(ty):
    ty = ty.strip()
    if any(x in ty for x in INFINITE_ITER):
        return False
    # module-qualified iterator types (serde_json::map::Iter<'_>, btree_map::IntoValues<..>)
    head = ty.split("<", 1)[0]
    if "::" in head:
        ty = head.split("::")[-1] + ("<" + ty.split("<", 1)[1] if "<" in ty else "<>")
    return ty.startswith(FINITE_ITER_HEADS) or ty.startswith("&mut ") and _iter_ty_ok(ty[5:])


class LoopInfo:
    def __init__(self, fn, head, body):
        self.fn = fn
        self.head = head
        self.body = body
        self.cls = None
        self.detail = ""
        self.at = None


def _chain_local(b, op):
    """follow copies/moves back to the originating local"""
    seen = 0
    while op and op[0] in ("copy", "move") and not op[1][1] and seen < 10:
        l = op[1][0]
        sd = b.single_def(l)
        if sd and sd[2][0] == "use":
            op = sd[2][1]
            seen += 1
            continue
        return l
    return None


def _def_of(b, l):
    sd = b.single_def(l)
    return sd[2] if sd else None


def _container_root(b, op, depth=8):
    """root local of a reference operand, through refs / deref views"""
    while depth > 0 and op and op[0] in ("copy", "move"):
        l, proj = op[1]
        if proj and proj != ["*"]:
            return (l, tuple(str(p) for p in proj))
        d = _def_of(b, l)
        if d is None:
            return (l, ())
        if d[0] == "ref":
            pl = d[2]
            if pl[1] in ([], ["*"]):
                nd = _def_of(b, pl[0])
                if nd is not None and pl[1] == ["*"]:
                    op = ["copy", [pl[0], []]]
                    depth -= 1
                    continue
                return (pl[0], ())
            return (pl[0], tuple(str(p) for p in pl[1]))
        if d[0] == "use":
            op = d[1]
        elif d[0] == "call" and d[1].get("args"):
            k = callee_key(d[1]["fn"]) if "fn" in d[1] else ""
            if k.split("@")[0] in ("Deref::deref", "DerefMut::deref_mut", "Vec::as_slice", "AsRef::as_ref"):
                op = d[1]["args"][0]
            else:
                return (l, ())
        else:
            return (l, ())
        depth -= 1
    return None


def classify(crate, cg, f):
    """-> list of LoopInfo for function f"""
    b = Body(f)
    res = []
    for head, body in b.loops():
        li = LoopInfo(f["path"], head, body)
        t0 = b.blocks[head]["term"] or {}
        li.at = t0.get("at") or (b.blocks[head]["stmts"][0].get("at") if b.blocks[head]["stmts"] else None)
        back_src = [x for x in body if head in b.succ[x]]
        def dead(s):
            t_ = b.blocks[s]["term"]
            return bool(t_) and t_["k"] == "unreach" and not b.blocks[s]["stmts"]
        exits = [(x, s) for x in body for s in b.succ[x] if s not in body and not dead(s)]

        def dominates_back(x):
            return all(b.dominates(x, s) for s in back_src)
        calls = []
        for x in sorted(body):
            t = b.blocks[x]["term"]
            if t and t["k"] == "call" and "fn" in t:
                calls.append((x, callee_key(t["fn"]), t))
        # (c) finite iterator: the block after Iterator::next switches on the Option and one arm leaves this loop
        for x, k, t in calls:
            if k.split("@")[0].endswith("::next") and "@" in k and t["t"] is not None:
                ity = k.split("@", 1)[1]
                nxt = t["t"]
                leaves = nxt in body and any(s not in body and not dead(s) for s in b.succ[nxt])
                if leaves and (dominates_back(x) or x == head):
                    if _iter_ty_ok(ity):
                        li.cls = "c:iterator"
                        li.detail = "Iterator::next on %s; None leaves the loop" % ity
                        break
                    li.detail = "iterator type %s is not in the finite-iterator list" % ity
        if li.cls:
            res.append(li)
            continue
        # (a) receive-driven: a call reaching Socket::receive dominates the back edges; its failure leaves the loop
        for x, k, t in calls:
            fn = t["fn"]
            p = fn.get("res") or fn["raw"]
            hits = is_socket_receive(p) or cg.reaches(p, is_socket_receive)
            if not hits and fn.get("res") is None:
                hits = any(is_socket_receive(ip) or cg.reaches(ip, is_socket_receive) for ip in cg.trait_impls.get(fn["raw"], []))
            if hits and dominates_back(x):
                # an exit edge after the call (the Err arm of `?`, `while let Ok`, `break`)
                rotated = False
                dls = {t["dest"][0]}
                for bi2 in body:
                    for s2 in b.blocks[bi2]["stmts"]:
                        if s2["k"] == "assign" and s2["rv"][0] == "use" and s2["rv"][1][0] in ("move", "copy") \
                                and s2["rv"][1][1][0] in dls and not s2["rv"][1][1][1] and not s2["lhs"][1]:
                            dls.add(s2["lhs"][0])
                for src, _ in exits:
                    st_ = b.blocks[src]["term"]
                    if st_ and st_["k"] == "switch":
                        l0 = _chain_local(b, st_["d"])
                        for (_, _, rv, _) in b.defs().get(l0, []) if l0 is not None else []:
                            if rv[0] == "discr" and rv[1][0] in dls:
                                rotated = True
                if rotated or any(b.dominates(t["t"], src) for src, _ in exits if t["t"] is not None):
                    li.cls = "a:receive"
                    li.detail = "each iteration performs %s (reaches Socket::receive); its failure leaves the loop" % k
                    break
        if li.cls:
            res.append(li)
            continue
        # exit conditions (switches with an edge leaving the loop)
        conds = []
        for src, dst in exits:
            t = b.blocks[src]["term"]
            if t and t["k"] == "switch":
                l = _chain_local(b, t["d"])
                d = _def_of(b, l) if l is not None else None
                conds.append((src, l, d))
        # (b) input-driven
        consuming = [(x, k, t) for x, k, t in calls if k.split("@")[0] in CONSUMING]
        reads = [(x, k, t) for x, k, t in consuming if k.split("@")[0] == "Buffer::read"]
        cons_dom = [c for c in consuming if dominates_back(c[0])]
        read_dom = [c for c in reads if dominates_back(c[0])]
        guard_remaining = False
        guard_empty = False
        for src, l, d in conds:
            for dd in _cond_sources(b, d, 4):
                if dd[0] == "call" and "fn" in dd[1]:
                    kk = callee_key(dd[1]["fn"]).split("@")[0]
                    if kk in REMAINING:
                        guard_remaining = True
                    if kk in ("String::is_empty", "str::is_empty", "slice::is_empty", "Vec::is_empty"):
                        guard_empty = True
        if read_dom and any(b.dominates(c[2]["t"], src) for c in read_dom for src, _ in exits if c[2]["t"] is not None):
            li.cls = "b:input"
            li.detail = "every iteration executes Buffer::read (>= 1 byte or Err leaving the loop)"
        elif cons_dom and (guard_remaining or guard_empty):
            li.cls = "b:input"
            li.detail = "every iteration consumes input (%s) and the exit tests %s" % (
                cons_dom[0][1].split("@")[0], "remaining bytes" if guard_remaining else "an empty read")
        if li.cls:
            res.append(li)
            continue
        # (d) counter / (e) grow-to-index
        for src, l, d in conds:
            if d and d[0] == "bin" and d[1] in ("Lt", "Le", "Gt", "Ge", "Ne", "Eq"):
                for side in (d[2], d[3]):
                    cl = _chain_local(b, side)
                    if cl is None:
                        continue
                    # counter: cl is updated in the loop only by +/- const and the update dominates the back edges
                    ups = [(bi, si, rv) for (bi, si, rv, proj) in b.defs().get(cl, []) if bi in body and not proj]
                    if ups and all(_is_step(b, rv, cl) for _, _, rv in ups) and any(dominates_back(bi) for bi, _, _ in ups):
                        li.cls = "d:counter"
                        li.detail = "exit compares a counter that every iteration steps by a constant"
                    # grow-to-index: one side is len(v) and the body pushes to v on every iteration
                    dd = _def_of(b, cl)
                    if dd and dd[0] == "call" and "fn" in dd[1] and callee_key(dd[1]["fn"]).split("@")[0] in ("Vec::len",):
                        root = _container_root(b, dd[1]["args"][0])
                        for x, k, t in calls:
                            if k.split("@")[0] in ("Vec::push", "Vec::extend_from_slice") and dominates_back(x):
                                if _container_root(b, t["args"][0]) == root:
                                    li.cls = "e:grow"
                                    li.detail = "exit compares len(v) with a bound while every iteration pushes to v"
            if li.cls:
                break
        if not li.cls and not li.detail:
            li.detail = "no exit forced by silence, input exhaustion, a finite iterator or a counter was recognised"
        res.append(li)
    return res


def _cond_sources(b, d, depth):
    """definitions feeding a condition (through copies, comparisons, Not)"""
    out = []
    if d is None or depth == 0:
        return out
    out.append(d)
    ops = []
    if d[0] == "bin":
        ops = [d[2], d[3]]
    elif d[0] == "un":
        ops = [d[2]]
    elif d[0] == "use":
        ops = [d[1]]
    elif d[0] == "call":
        ops = list(d[1].get("args", []))
    elif d[0] == "ref":
        ops = [["copy", d[2]]]
    elif d[0] == "discr":
        ops = [["copy", d[1]]]
    for o in ops:
        l = _chain_local(b, o)
        if l is not None:
            out.extend(_cond_sources(b, _def_of(b, l) if b.single_def(l) else _multi_def_call(b, l), depth - 1))
    return out


def _multi_def_call(b, l):
    ds = b.defs().get(l, [])
    for (_, _, rv, proj) in ds:
        if rv[0] == "call":
            return rv
    return None


def _is_step(b, rv, cl):
    """rv is `(cl +/- const).0` or cl +/- const"""
    if rv[0] == "use" and rv[1][0] in ("copy", "move"):
        pl = rv[1][1]
        if pl[1] and pl[1][0][0] == "f":
            d = _def_of(b, pl[0])
            if d and d[0] == "bin" and d[1] in ("AddWithOverflow", "SubWithOverflow"):
                return _chain_local(b, d[2]) == cl and d[3][0] == "const" and d[3][1].get("v", 0) != 0
    if rv[0] == "bin" and rv[1] in ("Add", "Sub"):
        return _chain_local(b, rv[2]) == cl and rv[3][0] == "const" and rv[3][1].get("v", 0) != 0
    if rv[0] == "call" and "fn" in rv[1]:
        k = callee_key(rv[1]["fn"]).split("@")[0]
        if k.split("::")[-1] in ("saturating_sub", "saturating_add", "wrapping_add", "wrapping_sub") and rv[1]["args"]:
            a = rv[1]["args"]
            return _chain_local(b, a[0]) == cl and len(a) > 1 and a[1][0] == "const" and a[1][1].get("v", 0) != 0
    return False
