//! Compile-fail witnesses (type-level remainder of C17 / C18). Run with `cargo +nightly test --doc --offline`
//! (stable ignores the error codes). Each witness has a compiling twin that differs only by the offending line.

/// C18: TimeoutSettings cannot be built field by field from another crate (private fields), so the only
/// constructors an external user can reach are `new`, `default` and `const_default`.
/// ```compile_fail,E0451
/// use std::time::Duration;
/// let _ = gamedig::TimeoutSettings { read: Some(Duration::ZERO), write: None, connect: None, retries: 0 };
/// ```
/// twin (compiles):
/// ```
/// use std::time::Duration;
/// let _ = gamedig::TimeoutSettings::new(Some(Duration::from_secs(1)), None, None, 0).unwrap();
/// ```
/// and zero is rejected by that constructor at run time is NOT what this witness shows; it only pins the closed
/// constructor set.
pub struct TimeoutSettingsFieldsArePrivate;

/// C17: the packet reader is not nameable from outside the crate, so every use of the cursor API is inside the
/// analysed crate (closed world for the parameter summaries).
/// ```compile_fail,E0603
/// use gamedig::buffer::Buffer;
/// ```
/// twin (compiles):
/// ```
/// use gamedig::protocols::types::TimeoutSettings;
/// ```
pub struct BufferIsNotNameable;

/// C17/C12: the socket layer is private as well.
/// ```compile_fail,E0603
/// use gamedig::socket::Socket;
/// ```
pub struct SocketIsNotNameable;
